#!/bin/bash
# Runs the repository's pinned test suite (guard off) and compares with BASELINE.json's stable_pass list.
OUT=$(mktemp -d)
cd /repo && /venv/bin/python -m pytest -ra -q -p no:cacheprovider --timeout=900 --continue-on-collection-errors --junitxml=$OUT/junit.xml >$OUT/log 2>&1
python3 - "$OUT/junit.xml" <<'PY'
import json,sys,xml.etree.ElementTree as ET
base=set(json.load(open('/root/.vp/BASELINE.json'))['stable_pass'])
passed=set()
for tc in ET.parse(sys.argv[1]).getroot().iter('testcase'):
    if not any(c.tag in('failure','error','skipped') for c in tc):
        passed.add(tc.get('classname')+'::'+tc.get('name'))
missing=sorted(base-passed)
print('baseline',len(base),'passed-now',len(passed&base),'missing',missing[:10])
sys.exit(1 if missing else 0)
PY
rc=$?
rm -rf $OUT
exit $rc
