#!/bin/bash
# st_queue.sh <root> <parallel> <id/variant>... -- development aid: selftests a list of sub-agent patches
# (<root>/<ID>/<A|B>/patch.diff), <parallel> at a time, one result line each in <root>/results.txt
ROOT=$1; PAR=$2; shift 2
printf '%s\n' "$@" | xargs -P "$PAR" -I{} bash -c '
  x={}; id=${x%%/*}; out=$(/verif/tools/selftest.sh '"$ROOT"'/$x/patch.diff $id 2>&1 | head -8 | cut -c1-400)
  { echo "### $x"; echo "$out"; } >> '"$ROOT"'/results.txt'
