#!/bin/bash
# Runs every registered quick check against /repo itself, validates MANIFEST and evidence files against the schemas.
cd /verif
unset PI2_REPO
rc=0
for id in $(python3 -c "import json; print(' '.join(c['property_id'] for c in json.load(open('MANIFEST.json'))['checks']))"); do
  s=$(date +%s); ./check $id quick > /tmp/regen_$id.log 2>&1; r=$?; e=$(( $(date +%s) - s ))
  echo "$id exit $r in ${e}s $(grep -c '^KNOWN-FINDING' /tmp/regen_$id.log) known-finding lines"
  [ $r -ne 0 ] && { rc=1; tail -5 /tmp/regen_$id.log | cut -c1-300; }
done
/opt/veriftools/pyvenv/bin/python - <<'PY'
import json, jsonschema, glob
jsonschema.validate(json.load(open('/verif/MANIFEST.json')), json.load(open('/root/.vp/MANIFEST.schema.json')))
sch=json.load(open('/root/.vp/EVIDENCE.schema.json'))
for f in sorted(glob.glob('/verif/evidence/C*.json')):
    jsonschema.validate(json.load(open(f)), sch)
print('manifest and', len(glob.glob('/verif/evidence/C*.json')), 'evidence files valid')
PY
exit $rc
