import time, z3, sys
from vf.props import c15
from vf import py2smt
for L in range(1, 10):
    word = [z3.Int(f'c{i}') for i in range(L)]
    impl, ke = py2smt.kernel_term(word)
    s = z3.Solver(); s.set('timeout', 15000); s.add(c15.valid(word)); s.add(z3.Or(impl != c15.spec_term(word), ke))
    t = time.time(); r = s.check(); t1 = time.time() - t
    n = z3.Int('n'); w2, fits = c15.encode_term(n, L); impl2, ke2 = py2smt.kernel_term(w2)
    s = z3.Solver(); s.set('timeout', 15000); s.add(n >= c15.LO[L], n <= c15.HI[L]); s.add(z3.Or(z3.Not(fits), impl2 != n, ke2))
    t = time.time(); r2 = s.check(); t2 = time.time() - t
    w1 = [z3.Int(f'a{i}') for i in range(L)]; w3 = [z3.Int(f'b{i}') for i in range(L)]
    i1, _ = py2smt.kernel_term(w1); i3, _ = py2smt.kernel_term(w3)
    s = z3.Solver(); s.set('timeout', 15000); s.add(c15.valid(w1), c15.valid(w3), i1 == i3, z3.Or([a != b for a, b in zip(w1, w3)]))
    t = time.time(); r3 = s.check(); t3 = time.time() - t
    print(L, r, round(t1, 2), r2, round(t2, 2), r3, round(t3, 2), c15.LO[L], c15.HI[L], flush=True)
