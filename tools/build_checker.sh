#!/bin/bash
# build_checker.sh <outdir> : builds the real checker binary from /repo/rust/src with the stable toolchain (cargo cannot resolve rstest offline)
set -e
OUT=$1
mkdir -p $OUT
cd ${PI2_REPO:-/repo}/rust
rustc +stable --edition 2021 -O --crate-type rlib --crate-name checker src/lib.rs --out-dir $OUT 2>$OUT/build.log
rustc +stable --edition 2021 -O --crate-name checker_bin src/main.rs --extern checker=$OUT/libchecker.rlib -o $OUT/checker 2>>$OUT/build.log
