#!/bin/bash
# selftest.sh <patch> <ID> [tier] -- applies a seeded change in a scratch worktree of /repo (never in /repo itself),
# points the check at it through PI2_REPO, removes the worktree.  Development aid, not a MANIFEST command.
P=$(realpath "$1"); ID=$2; T=${3:-quick}
W=$(mktemp -d /tmp/st-XXXXXX)
rmdir $W
git -C /repo worktree add -q --detach $W HEAD || exit 9
(cd $W && git apply "$P") || { echo "patch does not apply"; git -C /repo worktree remove --force $W; exit 9; }
cd /verif && PI2_REPO=$W ./check $ID $T > /tmp/selftest_${ID}_$$.log 2>&1; rc=$?
git -C /repo worktree remove --force $W
echo "selftest $(basename $(dirname $P))/$(basename $P) on $ID: exit $rc ($(grep -c '^VIOLATION' /tmp/selftest_${ID}_$$.log) violations)"
grep -m3 -A1 '^VIOLATION\|^HARNESS\|^INCONCL' /tmp/selftest_${ID}_$$.log | cut -c1-300
rm -f /tmp/selftest_${ID}_$$.log
exit $rc
