#!/bin/bash
# selftest.sh <patch> <ID> [tier]  -- applies a seeded change to /repo, runs one check, reverts. Development aid, not a MANIFEST command.
P=$(realpath "$1"); ID=$2; T=${3:-quick}
cd /repo || exit 9
git diff --quiet || { echo "repo dirty"; exit 9; }
git apply "$P" || { echo "patch does not apply"; exit 9; }
cd /verif && ./check $ID $T > /tmp/selftest_$ID.log 2>&1; rc=$?
git -C /repo checkout -- . 
echo "selftest $(basename $P) on $ID: exit $rc ($(grep -c '^VIOLATION' /tmp/selftest_$ID.log) violations)"
grep -m3 -A1 '^VIOLATION\|^HARNESS\|^INCONCL' /tmp/selftest_$ID.log | cut -c1-300
exit $rc
