#!/usr/bin/env python3
"""store_seed.py <seed-dir> <property> <name> <caught_by comma list> : copies a confirmed seeded change into /verif/seeded/<name>/"""
import json, os, shutil, sys
src, prop, name, caught = sys.argv[1:5]
dst = f'/verif/seeded/{name}'
os.makedirs(dst, exist_ok=True)
for f in os.listdir(src):
    if f in ('patch.diff', 'demo.py', 'demo.sh', 'notes.md'):
        shutil.copy(os.path.join(src, f), dst)
conf = json.load(open(os.path.join(src, 'confirm.json')))
notes = open(os.path.join(src, 'notes.md')).read() if os.path.exists(os.path.join(src, 'notes.md')) else ''
meta = {
    'property': prop,
    'origin': 'written by an independent sub-agent that saw only the property text and a scratch worktree',
    'needs_to_manifest': 'see notes.md',
    'confirmed_by_me': {
        'how': 'tools/confirm_seed.sh in a scratch worktree: demo on the unchanged tree, patch applied, demo again, full pinned suite',
        **conf,
    },
    'caught_by': [c for c in caught.split(',') if c],
}
json.dump(meta, open(os.path.join(dst, 'meta.json'), 'w'), indent=1)
print('stored', dst, conf)
