#!/bin/bash
# sweep.sh <list-file> <parallel> <out>: development aid -- selftests every "<patch> <ID>" line of the list
# (seeded changes and reverse patches of the fixes) against the current checks; one result line each in <out>
LIST=$1; PAR=$2; OUT=$3
: > "$OUT"
cat "$LIST" | xargs -P "$PAR" -L 1 bash -c 'r=$(/verif/tools/selftest.sh $0 $1 2>&1 | head -1); echo "$0 $1 :: $r" >> '"$OUT"
