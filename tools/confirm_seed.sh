#!/bin/bash
# confirm_seed.sh <dir-with-patch.diff-and-demo> <name>: confirms a seeded change in a scratch worktree:
# demo passes without it, fails with it, and the pinned suite still passes with it. Writes <dir>/confirm.json. Removes the worktree.
D=$(realpath $1); N=$2
W=/tmp/cf/$N
mkdir -p /tmp/cf
git -C /repo worktree add -q --detach $W HEAD || exit 9
cd $W/generation/src
run_demo() { if [ -f $D/demo.py ]; then /venv/bin/python $D/demo.py >/dev/null 2>&1; else (cd $W && bash $D/demo.sh >/dev/null 2>&1); fi; echo $?; }
before=$(run_demo)
(cd $W && git apply $D/patch.diff) || { echo '{"error":"patch does not apply"}' > $D/confirm.json; git -C /repo worktree remove --force $W; exit 9; }
after=$(run_demo)
cd $W && /venv/bin/python -m pytest -q -p no:cacheprovider --timeout=900 --continue-on-collection-errors --junitxml=/tmp/cf/$N.xml > /tmp/cf/$N.log 2>&1
python3 - /tmp/cf/$N.xml "$before" "$after" > $D/confirm.json <<'PY'
import json,sys,xml.etree.ElementTree as ET
base=set(json.load(open('/root/.vp/BASELINE.json'))['stable_pass'])
passed=set()
for tc in ET.parse(sys.argv[1]).getroot().iter('testcase'):
    if not any(c.tag in('failure','error','skipped') for c in tc):
        passed.add(tc.get('classname')+'::'+tc.get('name'))
missing=sorted(base-passed)
print(json.dumps({'demo_exit_without_change':int(sys.argv[2]),'demo_exit_with_change':int(sys.argv[3]),'suite_baseline':len(base),'suite_passed_with_change':len(passed&base),'suite_missing':missing[:5]}))
PY
git -C /repo worktree remove --force $W
rm -f /tmp/cf/$N.xml /tmp/cf/$N.log
cat $D/confirm.json
