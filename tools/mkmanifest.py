#!/usr/bin/env python3
"""Regenerates /verif/MANIFEST.json from the table below (kept valid at all times)."""
import json
import os

ROOT = os.path.dirname(os.path.dirname(os.path.abspath(__file__)))

TECH = 'bounded symbolic execution of the real code (symx: SymInt/SymBool proxies + z3 path feasibility, exhaustive DFS by re-execution); counterexamples replayed concretely'

CHECKS = {
    'C01': dict(
        text='Soundness is decided as an inductive step over the real checker code (transpiled from rust/src/lib.rs on every run): from a symbolic valid state, one axiom-schema+Instantiate, ModusPonens, Generalization or Substitution instruction is executed symbolically (premise shapes by forking, all ids and operands symbolic); on every accepting path z3 searches for a finite model (carrier <= 2 quick / 3 thorough, arbitrary symbol and application tables) and valuation in which the premises are valid and the conclusion is not, instantiating the universally quantified premise valuations by counterexample-guided refinement. Schematic theorems are reduced to concrete steps by a commutation lemma (L-schema) checked on the real code, and all other opcodes are shown not to create proved terms (L-plumbing). A counterexample is rebuilt as gamma/claim/proof files and must be accepted by the rustc-built binary before it is reported.',
        note='Trusted: z3, symx, rs2py (validated against the real binary in C05), vf/mlsem.py (finite-model semantics), the on-paper induction argument in DESIGN.md 5 C01. Bounds: premises <= 5/6 nodes, plugs <= 1/2, instantiation values <= 3/4 (axioms) and 1/2 (schemas), carriers <= 2/3.',
        design='DESIGN.md 5 C01',
        technique='bounded symbolic execution of the transpiled Rust checker (symx + z3) with semantic validity obligations over finite models decided by z3 (CEGIS over premise valuations); replay on the real binary',
    ),
    'C02': dict(
        text='Whatever the toolkit accepts and serialises is handed to the checker. Symbolic part (ids as z3 variables, acceptance decided by the checker transpiled from rust/src/lib.rs): call sequences against the serialising interpreter with the checker run on the emitted prefix after every call; generated modules with import graphs; one-rule modules (generalization, modus ponens, instantiate/dynamic_inst with every key order on axioms and axiom schemas) whose claim is the advertised conclusion, for both optimise settings. Concrete part (reported as such): every library lemma as a one-claim module at several argument tuples, the shipped modules and prover proofs, serialised with the real bytes() and run on the rustc-built binary.',
        note='Trusted: z3, symx, rs2py (validated against the real binary in C05). Known findings D10a-c,e (the Python side has no well-formedness checks) are re-observed and reported as KNOWN-FINDING. Bounds: <= 3 calls (quick) / 4-6 (thorough); premises <= 4/5 nodes; lemma arguments 1 node.',
        design='DESIGN.md 5 C02',
        technique='bounded symbolic execution of the generator (symx + z3) composed with the transpiled Rust checker; concrete replays on the real binary',
    ),
    'C03': dict(
        text='ProofExp.serialize (unmodified, both optimise settings, in-memory sinks) is executed symbolically on generated modules: import graphs (none, chain, diamond, ...), declaration lists and claim choices by forking, every id symbolic (one level with ids up to 1000 so the 255/256 boundary is inside the domain). The emitted gamma and claim streams are decoded by an independent implementation of the documented machine and must equal the declaration in order, for both settings; symbol numbering must be injective; an unencodable id must raise. The ">256 symbols" clause is a separate concrete test (256 / 257 / 300 symbols through the real bytes()).',
        note='Trusted: z3, symx, vf/refm.py as decoder, my stand-in for bytes() (same range contract). Bounds: <= 2/3 axioms of <= 3 nodes per module, <= 2 claims, <= 4 modules.',
        design='DESIGN.md 5 C03',
    ),
    'C04': dict(
        text='Call sequences against the real SerializingInterpreter are explored symbolically (next call by forking among those the tracked stack admits; all ids symbolic); after every call the bytes emitted so far, symbolic operands included, are executed by an independent implementation of the documented machine, whose stack, memory and claim stack must equal the tracker state (modulo notation expansion and symbol numbering). Module-level runs (imports, repeated axioms, loads of every axiom) cover Load addressing. Divergences that are on record (known_findings.json) are re-observed, reported as KNOWN-FINDING and, where possible, stepped over so the behaviour behind them stays covered.',
        note='Trusted: z3, symx, vf/refm.py (assumptions a1-a5, unspecified u1-u4 skipped and counted). Bounds: <= 3-4 calls (quick) / 4-6 (thorough) per alphabet and phase.',
        design='DESIGN.md 5 C04',
    ),
    'C05': dict(
        text='The Rust checker (re-transpiled from rust/src/lib.rs on every run and validated in the same run against the rustc-built binary on 4000+ streams, verdict and Debug state) and an independent implementation of docs/proof-language.md consume the same symbolic byte buffers: every byte of short streams, and one or two bytes of valid programs at every position (plus every truncation), are z3 variables; verdicts and final stack/memory/claims must agree on every feasible path. Behaviour the document leaves undefined is skipped and counted, not judged.',
        note='Trusted: z3, symx, rs2py (validated per run), vf/refm.py = my reading of the document with assumptions a1-a5 and unspecified cases u1-u3 listed in the evidence. Bounds: <= 3 (quick) / 6 (thorough) symbolic proof bytes, small gamma/claim prefixes, 1 (quick) / 2 (thorough) symbolic bytes in 6-7 valid programs.',
        design='DESIGN.md 5 C05',
        technique='differential bounded symbolic execution (symx + z3) of the transpiled Rust checker against a reference machine; translation validation against the real binary; replay on the real binary',
    ),
    'C06': dict(
        text='e_fresh/s_fresh/positive/negative of the Rust checker (via rs2py) and evar_is_free of the Python generator are executed symbolically on meta-patterns (nested binders, constrained metavariables, stacked ESubst/SSubst; notation on the Python side) with the judged variable, all ids and constraint members symbolic; whenever a judgement is True, the ground truth (free variables / polarity computed by an independent oracle) must hold on the instance under every constraint-respecting concrete instantiation up to the value bound.',
        note='Trusted: z3, symx, rs2py (validated against the real binary in C05), vf/oracle.py. Bounds: meta-pattern <= 4/5 nodes (5 for the SSubst polarity level), instantiation values <= 2/3 nodes, one constraint per list.',
        design='DESIGN.md 5 C06',
    ),
    'C07': dict(
        text='Every path of the three rule implementations (modus ponens, existential generalization, instantiate) in BasicInterpreter, StatefulInterpreter and the ProofExp thunks is explored for all premise shapes up to the node bound with all ids symbolic; z3 decides branch feasibility, so within the bound "returns iff the documented rule applies, with exactly its conclusion" holds for every id valuation, not for sampled ones.',
        note='Trusted: z3, the symx proxies, the textbook oracle vf/oracle.py and my reading of docs/proof-language.md for the three rules. Bounds: premise <= 4 (quick) / 5 (thorough) nodes, second premise <= 2 nodes or the antecedent shape with fresh ids.',
        design='DESIGN.md 5 C07',
    ),
    'C11': dict(
        text='apply_esubst/apply_ssubst/instantiate of all eleven pattern classes (incl. notation and raw partial Instantiate nodes) are executed symbolically against an independent textbook oracle for every pattern shape up to the bound with symbolic ids, plugs and instantiation maps (all key orders); composition of instantiations is checked as a law.',
        note='Trusted: z3, symx, vf/oracle.py. Bounds: pattern <= 4/5 nodes, plug <= 2, map values <= 1/2 nodes, metavariable ids 0..1. Rust half and the semantic substitution lemma: see levels rust-* / sem-* when present in the evidence.',
        design='DESIGN.md 5 C11',
    ),
    'C12': dict(
        text='== between patterns with nested notation is compared with structural equality of full expansions on all pairs up to the bound (ids symbolic, so z3 decides which id equalities make two patterns equal), and every operation (freshness test, metavars, substitution, instantiation, unwrap/deconstruct, matching) is compared between a pattern and its expansion.',
        note='Trusted: z3, symx, vf/oracle.py expand(). Bounds: <= 3/4 nodes per side over the propositional, definedness and Kore notations.',
        design='DESIGN.md 5 C12',
    ),
    'C13': dict(
        text='match_single/match/Notation.matches/assert_matches/deconstruct_nary_application executed symbolically: soundness on arbitrary (pattern, instance, seed) triples, completeness on instances built by the oracle from a symbolic substitution (including the empty solution), rebuild round trip for every live notation of the three libraries.',
        note='Trusted: z3, symx, vf/oracle.py. Bounds: pattern <= 3/4, instance <= 4, values <= 2, equation lists <= 2, notation arguments <= 2/3 nodes.',
        design='DESIGN.md 5 C13',
    ),
    'C08': dict(
        text='Proof expressions generated from a grammar over the raw rules (prop1-3, axioms, instantiate and dynamic_inst with empty, identity, repeated and out-of-order bindings and partially instantiated values, modus ponens with the instantiated proof on either side, generalization, quantifier) with symbolic ids, plus library lemmas, are run through fourteen interpreter stacks (plain, transformer stacks, the Counting -> finalize -> Memoizing pipeline of ProofExp.serialize(optimize=True), Memoizing over every pattern seen); all must succeed with equal conclusions equal to the advertised one, or all must raise.',
        note='Trusted: z3, symx, vf/oracle.py expansion for comparing conclusions. Bounds: expression depth <= 1 (quick) / 2 (thorough); lemma runs use concrete ids (a lemma costs seconds across the stacks) and are enumeration, not solver results.',
        design='DESIGN.md 5 C08',
    ),
    'C09': dict(
        text='Every propositional formula up to the bound goes through the real prover and each normal-form stage (on generated ConjForm trees as well); z3 decides over all truth assignments whether the formula is a tautology or unsatisfiable and whether a stage output is equivalent to its input, the returned proofs must conclude literally the pattern / its negation / the stage implications, and small proofs are replayed on a stateful interpreter. The resolution kernel is checked on every ordered clause list up to the bound.',
        note='Trusted: z3, vf/oracle.py expansion. Weakest fit of the technique among the claimed properties: metavariable ids must stay concrete, so the implementation side is covered by exhaustive forking and the solver decides the semantic oracle. Bounds: formulas <= 4/6 nodes over 2 metavariables (+ implication-only up to 5/7 nodes), ConjForm trees <= 4/5 leaves, clause lists <= 3/4 clauses.',
        design='DESIGN.md 5 C09',
        technique='exhaustive bounded forking over formulas (symx) with z3 deciding tautology/unsatisfiability/equivalence over all assignments; replay of returned proofs',
    ),
    'C10': dict(
        text='All public methods of the two libraries with a docstring schema (82, found by inspect at run time) are executed symbolically on argument patterns of every kind with symbolic ids, premise thunks being axioms of the instantiated premise schema (as written and under two layers of transparent notation): advertised conclusion, replayed conclusion and the docstring schema instantiated by an independent oracle must coincide on every path, and the replay may use only prop1-3, modus ponens, instantiate and declared axioms.',
        note='Trusted: z3, symx, vf/oracle.py, my docstring grammar (unparseable docstrings are listed as not covered, never guessed). Bounds: argument patterns of 1 node (quick) / 2 nodes (thorough, smaller profile for >= 3 letters).',
        design='DESIGN.md 5 C10',
    ),
    'C14': dict(
        text='Serialiser and deserialiser are executed symbolically back to back on call sequences (all ids/operands symbolic and flowing through both): the fresh interpreter must end in the same stack, memory and claims and re-emit the same bytes; every truncation of an emitted stream inside an instruction and a list of invalid opcodes at every instruction start must raise.',
        note='Trusted: z3, symx, my instruction-boundary decoder (operand layout only). Bounds: <= 3-4 calls (quick) / 4-6 (thorough); opcode bytes concrete, operands symbolic.',
        design='DESIGN.md 5 C14',
    ),
    'C15': dict(
        text='convert_to_number is translated from its AST (re-read from converter.py on every run) into a z3 integer term for each word length <= 9; z3 shows for all letter choices at once that it equals the Appendix-B value, that encode-then-decode is the identity for every number up to 20*5^8 = 9 765 620 and that no two words decode to the same number. Label lists, blanks, Z marks at every position and the numbering of mandatory hypotheses run through the real _import_proof on databases built as ASTs, under every order of the floating statements and every iteration order of the set of mandatory variables.',
        note='Trusted: z3, py2smt-mini (a construct it does not know makes the check inconclusive), my Appendix-B reference. Bounds: words <= 9 letters; <= 3 mandatory variables, <= 3 labels, <= 2-4 steps drawn from the boundary numbers.',
        design='DESIGN.md 5 C15',
        technique='direct SMT encoding of the kernel from its Python AST (z3, linear integer arithmetic) + bounded exhaustive execution of the real _import_proof with nondeterministic set iteration order',
    ),
    'C18': dict(
        text='Selected repo modules (proof, interpreters, counting/optimising interpreters, Metamath converter and translator) are loaded from their current source through an AST rewrite that routes every iteration site over a set/frozenset through a hook; the hook picks the iteration order by forking (all n! orders for <= 4 elements at up to two deviating iteration events per run; globally consistent re-orderings - reversed, three pseudo-hash orders - for generated small chain theories and generated multi-claim reflexivity theories with frequent memoisation-score ties). The six output streams must equal those under the natural order on every path. "What was serialised before" is enumerated exhaustively over a menu (incl. two modules with the same theory and different proofs, and two modules with equal stack items and different notation tables) with up to two earlier serialisations, each sequence in a fresh child process, compared with the target serialised alone.',
        note='Trusted: the rewrite (iteration sites: for, comprehensions, list/tuple/sorted/min/max/enumerate/zip/iter/join arguments), Python dict order being insertion order. Not a solver query: bounded exhaustive exploration of orders with the symx engine; no sampling of hash seeds. Bounds: <= 2 deviating iteration events; sets > 4 elements in three orders; histories <= 2 over an 8-module menu (incl. a module that mentions its symbols in another order).',
        design='DESIGN.md 5 C18',
        technique='bounded exhaustive exploration (symx forking) of set iteration orders injected by an import-time AST rewrite; exhaustive history enumeration in fresh processes',
    ),
    'C19': dict(
        text='For every live notation (read from the imported modules at run time, incl. forall/sorted_exists/kore_exists/nary_app instances) and every argument its definition depends on, z3 (theory of strings) is asked for two argument tuples that differ only in that argument and render to the same text through the notation\'s format string; unsat = the rendering shows the argument. Counterexamples are replayed through the real Notation.print_instantiation. The real Instantiate.pretty is run on all pairs of applications differing in one argument with one shared options object, and pretty steps are compared one by one with the decoded binary instructions for generated call sequences and the shipped modules (both optimise settings).',
        note='Trusted: z3 sequence theory, string.Formatter().parse, my instruction-boundary decoder. The pairs/steps parts use concrete small ids (bounded enumeration replayed on the real code); the string obligations are the solver-decided part.',
        design='DESIGN.md 5 C19',
        technique='z3 theory of strings on the format strings read from the live objects; bounded exhaustive execution of the real printers',
    ),
}

# additions after the seeded-change rounds (DESIGN.md 8): appended to the level text of the check
EXTRA = {
    'C01': ' A fifth lemma, L-inst, covers terms whose occurrences of one metavariable carry different constraint annotations: an accepted Instantiate (partial or total, schematic plugs, ids in either order) respects the constraints of every occurrence and yields the textbook instance. L-inst also requires that an accepted instance needs no renaming (no capture by the textbook), on a dedicated level with binder plugs; debug_assert! is modelled as a no-op (release semantics).',
    'C02': ' One-rule modules also instantiate axioms that contain pending substitutions (the plug alone may mention the instantiated metavariable). Known-finding signatures carry an independent verdict (the documented machine on the toolkit\'s own tracked term; the textbook on the substitution), so a rejection of a well-formed term is never counted under a known finding. The look-alike macro step is part of the call sequences.',
    'C03': ' Import graphs also: transitive import through an axiom-less module, module filled after it was imported; axioms containing partial instantiations in any key order; the expected publication is built from the harness\'s own lists, never read back from the module objects. Concrete (not symbolic) boundary tests: 256/257/300 symbols, and the memoisation plan around the 256 memory slots. Declared axioms include a metavariable whose only constraint list is app_ctx_holes.',
    'C04': ' Loads use the label the toolkit\'s own callers pass (str(term)); a macro step saves two different terms that print alike and loads both. Instantiate is also attempted with one key more than there are plugs (the toolkit has to refuse).',
    'C05': ' The mutated programs include one with the same claim twice and one with a mu over a pending element substitution. Also one where an inner mu re-binds the set variable of the outer mu on the left of an implication.',
    'C06': ' Full-profile levels (every constructor, both kinds of variable in pattern and value) run in both tiers; on the Python side the judgement is also taken after the same judgement on sibling patterns (other constructors, shifted ids, rotated notation keys, flipped arguments), in every rotation. Two stacked pending substitutions on a constrained metavariable are judged for all five judgements.',
    'C07': ' Also: the Quantifier schema instantiated with binder-notation values, and generalization after the same rule was applied to sibling premises (an asymmetric binder notation with both key orders). A pending set-variable substitution is instantiated with values that contain binders of both kinds. A focused 5-node level has a pending ESubst over a metavariable carrying e_fresh in the consequent.',
    'C08': ' Whole modules go through ProofExp.serialize plain and optimised (the counting pass and the memoising serialiser share one claim list), plus a concrete test of the memoisation plan at the 256-slot boundary. Plugs include a pending set-variable substitution; the module levels include a transitive import.',
    'C09': ' History levels ask one prover object several questions (the formula itself first or last, its negation, four fixed formulas; clause lists likewise) before the one that is checked. The two implication proofs returned by to_clauses are compared literally with the pattern of the returned clause list. Single clauses of up to 4 literals over 3 variables go through the resolution kernel (two clauses of up to 3 in thorough).',
    'C11': ' History levels run the same operation on sibling patterns first (every rotation) and throw the results away.',
    'C12': ' Also a non-linear schema (phi0 -> phi0) against a pattern paired with its own expansion, and the whole battery after the same battery on sibling patterns.',
    'C13': ' Also: arbitrary (also unsolvable) two-equation systems for the soundness of match(); soundness and completeness after sibling problems were solved first, in every rotation. Completeness when one metavariable meets two spellings of one pattern (notation and expansion).',
    'C10': ' Lemmas with one (thorough: two) letters are also applied to arguments that are pending substitutions.',
    'C18': ' Histories also serialise the same module object twice, include a module whose claim spells out what its proof writes as notation, and two Metamath databases in which one token is a variable in one and a constant in the other; a child that fails only after a history counts as a violation. A database with three variables of the ambiguous sort #Variable is part of the order levels.',
    'C14': ' Loads use str(term) labels; the look-alike macro step of C04 is part of the alphabets.',
    'C15': ' The theorem is placed at top level, in a block, and in a block with a $d naming a variable it does not mention, with and without an earlier theorem over the same variables decoded by the same converter. Shipped compressed proofs are re-marked with one or two more Z at every position and executed through exec_proof: the claim must still be discharged. A database with the floating statements in the opposite order may be converted first in the same process.',
    'C19': ' Pairs are also printed by a printer with no notation registered (the fallback rendering, which is str()), and applications that came about as instances of schematic applications are compared with the direct application with two arguments exchanged. Every notation is also applied to itself on the left and on the right (different patterns, differently printed arguments, so different text), and the constraint lists of MetaVar steps are compared with those of the instruction. Step correspondence at three calls also in quick (a step after a Pop that empties the stack); generated n-ary notations for symbol names with (escaped) braces. The string obligations also cover generated n-ary notations of arity 11 and 12 (two-digit placeholders), with the arguments other than the one asked about fixed to distinct constants.',
}

NOT_YET = {
}

NA = {
    'C16': 'solver-based checking does not apply: every quantified object is structural (databases, derivations, compression layouts) and the path from text to proof runs through Lark\'s regex lexer and a whole-program pipeline; a run would be enumeration of concrete pipeline executions, i.e. a different technique. The solver-decidable parts are claimed under C15 (step numbers, hypothesis order), C18 and C02.',
    'C17': 'solver-based checking does not apply: the round trip is Encoder -> Lark parser (regex on concrete strings, a C boundary no symbolic string crosses) and the slicer is closure over hash containers of labels; inputs are purely structural.',
    'C20': 'the code under test imports pyk.kore.syntax, which is absent from the pinned environment (the repository\'s own tests for it cannot be collected); encoding it would mean stubbing a third-party AST whose contract cannot be validated offline.',
}


def main() -> None:
    checks = []
    for pid in sorted(CHECKS):
        c = CHECKS[pid]
        checks.append(
            {
                'property_id': pid,
                'quick_cmd': f'./check {pid} quick',
                'thorough_cmd': f'./check {pid} thorough',
                'evidence_file': f'/verif/evidence/{pid}.json',
                'replay_cmd_template': f'./check {pid} --replay {{path}}',
                'engine': 'symx',
                'level_claimed': {'category': 'model_checking', 'text': c['text'] + EXTRA.get(pid, ''), 'design_ref': c['design']},
                'level_note': c['note'],
                'technique': c.get('technique', TECH),
            }
        )
    na = []
    for pid, r in sorted({**NOT_YET, **NA}.items()):
        if pid in CHECKS:
            continue
        na.append({'property_id': pid, 'reason': r})
    m = {
        'version': 1,
        'setup_cmd': './setup.sh',
        'hooks': {
            'guard': 'PI2_VERIF',
            'enable': 'none needed: all instrumentation is installed from the harness process (module-global shadowing, id-blind __hash__); /repo carries no hook code',
            'baseline_off_cmd': '/verif/tools/baseline.sh',
            'source_commits': [],
            'add_only': True,
        },
        'engines': [
            {'name': 'symx', 'path': 'vf/symx.py', 'serves_properties': sorted(CHECKS), 'kind_free_text': 'bounded symbolic executor for the real Python code: proxy ints/bools over z3 terms, exhaustive DFS over decision trails with an incremental solver, concrete replay of every counterexample'},
        ],
        'checks': checks,
        'not_applicable': na,
        'notes': 'Exit codes: 0 pass, 1 VIOLATION (replayed, unlisted), 2 inconclusive, 3 harness error. known_findings.json is read-only at run time.',
    }
    json.dump(m, open(os.path.join(ROOT, 'MANIFEST.json'), 'w'), indent=1)
    print('wrote MANIFEST.json with', len(checks), 'checks,', len(na), 'not_applicable')


if __name__ == '__main__':
    main()
