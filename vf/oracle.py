"""oracle.ml -- textbook matching-logic syntax, written from the definitions.

Own term representation (tuples), no code shared with the repo.  The functions
are plain Python; run under symx they are executed symbolically like the code
under test (comparisons of ids fork), run on plain ints they are the concrete
oracle used for replay.

 ('ev', x) ('sv', X) ('sym', name) ('imp', l, r) ('app', l, r)
 ('ex', x, body) ('mu', X, body)
 ('mv', id, efresh, sfresh, pos, neg, holes)      constraint lists: tuples of ids
 ('es', pat, x, plug) ('ss', pat, X, plug)          pending substitutions
"""
from __future__ import annotations

from typing import Any

T = tuple


class Capture(Exception):
    """the textbook operation is undefined here (would capture a variable)"""


# ---------------------------------------------------------------------------
# reading the repo's objects (field access only)


def expand(p: Any) -> T:
    """repo Pattern -> oracle term, all notation expanded"""
    n = type(p).__name__
    if n == 'EVar':
        return ('ev', p.name)
    if n == 'SVar':
        return ('sv', p.name)
    if n == 'Symbol':
        return ('sym', p.name)
    if n == 'Implies':
        return ('imp', expand(p.left), expand(p.right))
    if n == 'App':
        return ('app', expand(p.left), expand(p.right))
    if n == 'Exists':
        return ('ex', p.var, expand(p.subpattern))
    if n == 'Mu':
        return ('mu', p.var, expand(p.subpattern))
    if n == 'MetaVar':
        return (
            'mv',
            p.name,
            tuple(_vid(v) for v in p.e_fresh),
            tuple(_vid(v) for v in p.s_fresh),
            tuple(_vid(v) for v in p.positive),
            tuple(_vid(v) for v in p.negative),
            tuple(_vid(v) for v in p.app_ctx_holes),
        )
    if n == 'ESubst':
        return ('es', expand(p.pattern), _vid(p.var), expand(p.plug))
    if n == 'SSubst':
        return ('ss', expand(p.pattern), _vid(p.var), expand(p.plug))
    if n == 'Instantiate':
        return inst(expand(p.pattern), {k: expand(v) for k, v in p.inst.items()})
    raise TypeError(f'not a pattern: {p!r}')


def _vid(v: Any) -> Any:
    return v.name if hasattr(v, 'name') else v


# ---------------------------------------------------------------------------
# structural equality (forks on ids under symx)


def eq(a: T, b: T) -> bool:
    if a[0] != b[0]:
        return False
    k = a[0]
    if k in ('ev', 'sv'):
        return bool(a[1] == b[1])
    if k == 'sym':
        return a[1] == b[1]
    if k in ('imp', 'app'):
        return eq(a[1], b[1]) and eq(a[2], b[2])
    if k in ('ex', 'mu'):
        return bool(a[1] == b[1]) and eq(a[2], b[2])
    if k == 'mv':
        if a[1] != b[1]:
            return False
        for la, lb in zip(a[2:], b[2:]):
            if len(la) != len(lb):
                return False
            for x, y in zip(la, lb):
                if not (x == y):
                    return False
        return True
    if k in ('es', 'ss'):
        return eq(a[1], b[1]) and bool(a[2] == b[2]) and eq(a[3], b[3])
    raise TypeError(k)


def size(a: T) -> int:
    k = a[0]
    if k in ('ev', 'sv', 'sym', 'mv'):
        return 1
    if k in ('imp', 'app'):
        return 1 + size(a[1]) + size(a[2])
    if k in ('ex', 'mu'):
        return 1 + size(a[2])
    return 1 + size(a[1]) + size(a[3])


def has_meta(a: T) -> bool:
    k = a[0]
    if k in ('mv', 'es', 'ss'):
        return True
    if k in ('imp', 'app'):
        return has_meta(a[1]) or has_meta(a[2])
    if k in ('ex', 'mu'):
        return has_meta(a[2])
    return False


def metavars(a: T) -> set:
    k = a[0]
    if k == 'mv':
        return {a[1]}
    if k in ('imp', 'app'):
        return metavars(a[1]) | metavars(a[2])
    if k in ('ex', 'mu'):
        return metavars(a[2])
    if k in ('es', 'ss'):
        return metavars(a[1]) | metavars(a[3])
    return set()


def _in(x: Any, lst: tuple) -> bool:
    for y in lst:
        if x == y:
            return True
    return False


# ---------------------------------------------------------------------------
# free variables, polarity -- exact on concrete (metavariable-free) terms


def occurs_free_e(a: T, x: Any) -> bool:
    k = a[0]
    if k == 'ev':
        return bool(a[1] == x)
    if k in ('sv', 'sym'):
        return False
    if k in ('imp', 'app'):
        return occurs_free_e(a[1], x) or occurs_free_e(a[2], x)
    if k == 'ex':
        if a[1] == x:
            return False
        return occurs_free_e(a[2], x)
    if k == 'mu':
        return occurs_free_e(a[2], x)
    raise TypeError(f'occurs_free_e on a meta-pattern {k}')


def occurs_free_s(a: T, X: Any) -> bool:
    k = a[0]
    if k == 'sv':
        return bool(a[1] == X)
    if k in ('ev', 'sym'):
        return False
    if k in ('imp', 'app'):
        return occurs_free_s(a[1], X) or occurs_free_s(a[2], X)
    if k == 'mu':
        if a[1] == X:
            return False
        return occurs_free_s(a[2], X)
    if k == 'ex':
        return occurs_free_s(a[2], X)
    raise TypeError(f'occurs_free_s on a meta-pattern {k}')


def only_polarity(a: T, X: Any, positive: bool) -> bool:
    """all free occurrences of X in a are positive (resp. negative)"""
    k = a[0]
    if k == 'sv':
        if a[1] == X:
            return positive
        return True
    if k in ('ev', 'sym'):
        return True
    if k == 'imp':
        return only_polarity(a[1], X, not positive) and only_polarity(a[2], X, positive)
    if k == 'app':
        return only_polarity(a[1], X, positive) and only_polarity(a[2], X, positive)
    if k == 'ex':
        return only_polarity(a[2], X, positive)
    if k == 'mu':
        if a[1] == X:
            return True
        return only_polarity(a[2], X, positive)
    raise TypeError(f'polarity on a meta-pattern {k}')


# ---------------------------------------------------------------------------
# substitution of free occurrences; deferred on metavariables


def subst_e(a: T, x: Any, plug: T, strict: bool = False) -> T:
    """a[plug/x].  Replaces exactly the free occurrences of x.  With strict=True
    raises Capture where a free variable of plug would be captured."""
    k = a[0]
    if k == 'ev':
        if a[1] == x:
            return plug
        return a
    if k in ('sv', 'sym'):
        return a
    if k in ('imp', 'app'):
        return (k, subst_e(a[1], x, plug, strict), subst_e(a[2], x, plug, strict))
    if k == 'ex':
        if a[1] == x:
            return a
        if strict and not has_meta(plug) and not has_meta(a[2]):
            if occurs_free_e(a[2], x) and occurs_free_e(plug, a[1]):
                raise Capture()
        return ('ex', a[1], subst_e(a[2], x, plug, strict))
    if k == 'mu':
        if strict and not has_meta(plug) and not has_meta(a[2]):
            if occurs_free_e(a[2], x) and occurs_free_s(plug, a[1]):
                raise Capture()
        return ('mu', a[1], subst_e(a[2], x, plug, strict))
    if k == 'mv':
        if _in(x, a[2]):
            return a
        return ('es', a, x, plug)
    if k in ('es', 'ss'):
        return ('es', a, x, plug)
    raise TypeError(k)


def subst_s(a: T, X: Any, plug: T, strict: bool = False) -> T:
    k = a[0]
    if k == 'sv':
        if a[1] == X:
            return plug
        return a
    if k in ('ev', 'sym'):
        return a
    if k in ('imp', 'app'):
        return (k, subst_s(a[1], X, plug, strict), subst_s(a[2], X, plug, strict))
    if k == 'mu':
        if a[1] == X:
            return a
        if strict and not has_meta(plug) and not has_meta(a[2]):
            if occurs_free_s(a[2], X) and occurs_free_s(plug, a[1]):
                raise Capture()
        return ('mu', a[1], subst_s(a[2], X, plug, strict))
    if k == 'ex':
        if strict and not has_meta(plug) and not has_meta(a[2]):
            if occurs_free_s(a[2], X) and occurs_free_e(plug, a[1]):
                raise Capture()
        return ('ex', a[1], subst_s(a[2], X, plug, strict))
    if k == 'mv':
        if _in(X, a[3]):
            return a
        return ('ss', a, X, plug)
    if k in ('es', 'ss'):
        return ('ss', a, X, plug)
    raise TypeError(k)


def inst(a: T, delta: dict, strict: bool = False) -> T:
    """simultaneous metavariable instantiation, pending substitutions resolved"""
    k = a[0]
    if k in ('ev', 'sv', 'sym'):
        return a
    if k in ('imp', 'app'):
        return (k, inst(a[1], delta, strict), inst(a[2], delta, strict))
    if k in ('ex', 'mu'):
        return (k, a[1], inst(a[2], delta, strict))
    if k == 'mv':
        if a[1] in delta:
            return delta[a[1]]
        return a
    if k == 'es':
        return subst_e(inst(a[1], delta, strict), a[2], inst(a[3], delta, strict), strict)
    if k == 'ss':
        return subst_s(inst(a[1], delta, strict), a[2], inst(a[3], delta, strict), strict)
    raise TypeError(k)


def respects(mv: T, val: T) -> bool:
    """does the concrete pattern val respect the declared constraints of mv"""
    assert mv[0] == 'mv'
    for x in mv[2]:
        if occurs_free_e(val, x):
            return False
    for X in mv[3]:
        if occurs_free_s(val, X):
            return False
    for X in mv[4]:
        if not only_polarity(val, X, True):
            return False
    for X in mv[5]:
        if not only_polarity(val, X, False):
            return False
    return True


def all_metavar_nodes(a: T, acc: list | None = None) -> list:
    if acc is None:
        acc = []
    k = a[0]
    if k == 'mv':
        acc.append(a)
    elif k in ('imp', 'app'):
        all_metavar_nodes(a[1], acc)
        all_metavar_nodes(a[2], acc)
    elif k in ('ex', 'mu'):
        all_metavar_nodes(a[2], acc)
    elif k in ('es', 'ss'):
        all_metavar_nodes(a[1], acc)
        all_metavar_nodes(a[3], acc)
    return acc


def show(a: T) -> str:
    k = a[0]
    if k == 'ev':
        return f'x{a[1]}'
    if k == 'sv':
        return f'X{a[1]}'
    if k == 'sym':
        return str(a[1])
    if k == 'imp':
        return f'({show(a[1])} -> {show(a[2])})'
    if k == 'app':
        return f'({show(a[1])} . {show(a[2])})'
    if k == 'ex':
        return f'(E x{a[1]}. {show(a[2])})'
    if k == 'mu':
        return f'(mu X{a[1]}. {show(a[2])})'
    if k == 'mv':
        c = ''
        if any(a[2:]):
            c = '{' + ';'.join(','.join(str(i) for i in l) for l in a[2:]) + '}'
        return f'phi{a[1]}{c}'
    if k == 'es':
        return f'{show(a[1])}[{show(a[3])}/x{a[2]}]'
    if k == 'ss':
        return f'{show(a[1])}[{show(a[3])}/X{a[2]}]'
    return str(a)


# ---------------------------------------------------------------------------
# the judgements of docs/proof-language.md on meta-patterns (best effort by
# design: True means "holds for every constraint-respecting instance")


def doc_e_fresh(a: T, x: Any) -> bool:
    k = a[0]
    if k == 'ev':
        return not (a[1] == x)
    if k in ('sv', 'sym'):
        return True
    if k in ('imp', 'app'):
        return doc_e_fresh(a[1], x) and doc_e_fresh(a[2], x)
    if k == 'ex':
        if a[1] == x:
            return True
        return doc_e_fresh(a[2], x)
    if k == 'mu':
        return doc_e_fresh(a[2], x)
    if k == 'mv':
        return _in(x, a[2])
    if k == 'es':
        if a[2] == x:
            return doc_e_fresh(a[3], x)
        return doc_e_fresh(a[1], x) and doc_e_fresh(a[3], x)
    if k == 'ss':
        return doc_e_fresh(a[1], x) and doc_e_fresh(a[3], x)
    raise TypeError(k)


def doc_s_fresh(a: T, X: Any) -> bool:
    k = a[0]
    if k == 'sv':
        return not (a[1] == X)
    if k in ('ev', 'sym'):
        return True
    if k in ('imp', 'app'):
        return doc_s_fresh(a[1], X) and doc_s_fresh(a[2], X)
    if k == 'mu':
        if a[1] == X:
            return True
        return doc_s_fresh(a[2], X)
    if k == 'ex':
        return doc_s_fresh(a[2], X)
    if k == 'mv':
        return _in(X, a[3])
    if k == 'ss':
        if a[2] == X:
            return doc_s_fresh(a[3], X)
        return doc_s_fresh(a[1], X) and doc_s_fresh(a[3], X)
    if k == 'es':
        return doc_s_fresh(a[1], X) and doc_s_fresh(a[3], X)
    raise TypeError(k)


def doc_polarity(a: T, X: Any, positive: bool) -> bool:
    k = a[0]
    if k == 'sv':
        if positive:
            return True
        return not (a[1] == X)
    if k in ('ev', 'sym'):
        return True
    if k == 'imp':
        return doc_polarity(a[1], X, not positive) and doc_polarity(a[2], X, positive)
    if k == 'app':
        return doc_polarity(a[1], X, positive) and doc_polarity(a[2], X, positive)
    if k == 'ex':
        return doc_polarity(a[2], X, positive)
    if k == 'mu':
        if a[1] == X:
            return True
        return doc_polarity(a[2], X, positive)
    if k == 'mv':
        return _in(X, a[4] if positive else a[5])
    if k == 'es':
        return doc_polarity(a[1], X, positive) and doc_s_fresh(a[3], X)
    if k == 'ss':
        plug_ok = (
            doc_s_fresh(a[3], X)
            or (doc_polarity(a[1], a[2], True) and doc_polarity(a[3], X, positive))
            or (doc_polarity(a[1], a[2], False) and doc_polarity(a[3], X, not positive))
        )
        if a[2] == X:
            return plug_ok
        return doc_polarity(a[1], X, positive) and plug_ok
    raise TypeError(k)


def doc_wf_subst(a: T) -> bool:
    """ESubst/SSubst node is not redundant and sits on a meta-pattern"""
    k = a[0]
    if k == 'es':
        if a[3][0] == 'ev' and a[3][1] == a[2]:
            return False
        if doc_e_fresh(a[1], a[2]):
            return False
        return a[1][0] in ('mv', 'es', 'ss')
    if k == 'ss':
        if a[3][0] == 'sv' and a[3][1] == a[2]:
            return False
        if doc_s_fresh(a[1], a[2]):
            return False
        return a[1][0] in ('mv', 'es', 'ss')
    return True
