"""Symbolic call sequences against a (serialising) stateful interpreter: the next
call is chosen among those the tracked stack admits, all ids are symbolic."""
from __future__ import annotations

from typing import Any, Callable

from . import gens, oracle as O, patches

ALPHABETS = {
    # pattern construction incl. meta-patterns and memory
    'patterns': ('evar', 'svar', 'symbol', 'metavar', 'cmetavar', 'implies', 'app', 'exists', 'mu', 'esubst', 'ssubst', 'save', 'load', 'pop', 'instantiate_pattern'),
    # proofs: axioms, rules, instantiation, memory, publish
    'proofs': ('evar', 'metavar', 'implies', 'exists', 'prop1', 'prop2', 'prop3', 'quantifier', 'modus_ponens', 'generalization', 'instantiate', 'save', 'load', 'pop', 'publish'),
    'small': ('evar', 'metavar', 'implies', 'prop1', 'instantiate', 'modus_ponens', 'save', 'load', 'publish'),
    # memory addressing under the labels the toolkit's own callers use (str(term)): two different terms that print alike
    'lookalike': ('lookalike', 'metavar', 'implies', 'save', 'load', 'pop'),
    'all': (
        'evar', 'svar', 'symbol', 'metavar', 'cmetavar', 'implies', 'app', 'exists', 'mu', 'esubst', 'ssubst', 'prop1', 'prop2', 'prop3', 'quantifier',
        'modus_ponens', 'generalization', 'instantiate', 'instantiate_pattern', 'save', 'load', 'pop', 'publish', 'next_phase',
    ),
}

MV_CFGS = ((1, 0, 0, 0, 0), (0, 1, 0, 0, 0), (0, 0, 1, 0, 0), (0, 0, 0, 1, 0), (0, 0, 0, 0, 1), (1, 0, 0, 0, 1))


def new_serializer(phase: Any = None, claims: list | None = None) -> Any:
    from proof_generation.interpreter import ExecutionPhase
    from proof_generation.serializing_interpreter import SerializingInterpreter

    sinks = (patches.Sink(), patches.Sink(), patches.Sink())
    it = SerializingInterpreter(phase or ExecutionPhase.Gamma, sinks[0], claims or [], sinks[1], sinks[2])
    it._sinks = sinks  # type: ignore[attr-defined]
    return it


def is_pat(x: Any) -> bool:
    from proof_generation.pattern import Pattern

    return isinstance(x, Pattern)


def is_proved(x: Any) -> bool:
    from proof_generation.proved import Proved

    return isinstance(x, Proved)


def admissible(it: Any, alphabet: tuple) -> list[str]:
    from proof_generation import pattern as P
    from proof_generation.interpreter import ExecutionPhase

    st = it.stack
    out = []
    for a in alphabet:
        if a in ('evar', 'svar', 'symbol', 'metavar', 'cmetavar', 'prop1', 'prop2', 'prop3', 'quantifier'):
            out.append(a)
        elif a in ('implies', 'app'):
            if len(st) >= 2 and is_pat(st[-1]) and is_pat(st[-2]):
                out.append(a)
        elif a in ('exists', 'mu'):
            if st and is_pat(st[-1]):
                out.append(a)
        elif a in ('esubst', 'ssubst'):
            if len(st) >= 2 and isinstance(st[-1], (P.MetaVar, P.ESubst, P.SSubst)) and is_pat(st[-2]):
                out.append(a)
        elif a == 'modus_ponens':
            if len(st) >= 2 and is_proved(st[-1]) and is_proved(st[-2]):
                out.append(a)
        elif a == 'generalization':
            if st and is_proved(st[-1]):
                out.append(a)
        elif a == 'instantiate':
            if st and is_proved(st[-1]):
                out.append(a)
        elif a == 'instantiate_pattern':
            if st and is_pat(st[-1]):
                out.append(a)
        elif a in ('save', 'pop'):
            if st:
                out.append(a)
        elif a == 'load':
            if it.memory:
                out.append(a)
        elif a == 'lookalike':
            out.append(a)
        elif a == 'publish':
            if not st:
                continue
            if it.phase == ExecutionPhase.Proof:
                if is_proved(st[-1]) and it.claims:
                    out.append(a)
            elif is_pat(st[-1]):
                out.append(a)
        elif a == 'next_phase':
            if it.phase != ExecutionPhase.Proof:
                out.append(a)
    return out


def step(ctx: Any, it: Any, call: str, symbols: tuple = ('s0', 's1')) -> dict:
    """performs one call; returns a description. Exceptions of the interpreter propagate."""
    from proof_generation import pattern as P
    from proof_generation.interpreter import ExecutionPhase

    st = it.stack
    d: dict = {'call': call}
    if call == 'evar':
        i = ctx.int('e')
        d['id'] = repr(i)
        it.evar(i)
    elif call == 'svar':
        i = ctx.int('s')
        d['id'] = repr(i)
        it.svar(i)
    elif call == 'symbol':
        n = symbols[ctx.choose(len(symbols), 'sym')]
        d['name'] = n
        it.symbol(n)
    elif call == 'cmetavar':
        k = ctx.choose(2, 'mv')
        d['id'] = k
        it.metavar(k)
    elif call == 'metavar':
        k = ctx.choose(2, 'mv')
        cfg = MV_CFGS[ctx.choose(len(MV_CFGS), 'cfg')]
        ls = (
            tuple(P.EVar(ctx.int('ce')) for _ in range(cfg[0])),
            tuple(P.SVar(ctx.int('cs')) for _ in range(cfg[1])),
            tuple(P.SVar(ctx.int('cp')) for _ in range(cfg[2])),
            tuple(P.SVar(ctx.int('cn')) for _ in range(cfg[3])),
            tuple(P.EVar(ctx.int('ch')) for _ in range(cfg[4])),
        )
        d['id'] = k
        d['constraints'] = repr(ls)
        it.metavar(k, *ls)
    elif call == 'implies':
        it.implies(st[-2], st[-1])
    elif call == 'app':
        it.app(st[-2], st[-1])
    elif call == 'exists':
        i = ctx.int('be')
        d['id'] = repr(i)
        it.exists(i, st[-1])
    elif call == 'mu':
        i = ctx.int('bs')
        d['id'] = repr(i)
        it.mu(i, st[-1])
    elif call == 'esubst':
        i = ctx.int('ve')
        d['id'] = repr(i)
        it.esubst(i, st[-1], st[-2])
    elif call == 'ssubst':
        i = ctx.int('vs')
        d['id'] = repr(i)
        it.ssubst(i, st[-1], st[-2])
    elif call == 'prop1':
        it.prop1()
    elif call == 'prop2':
        it.prop2()
    elif call == 'prop3':
        it.prop3()
    elif call == 'quantifier':
        it.exists_quantifier()
    elif call == 'modus_ponens':
        it.modus_ponens(st[-2], st[-1])
    elif call == 'generalization':
        i = ctx.int('x')
        d['id'] = repr(i)
        it.exists_generalization(st[-1], P.EVar(i))
    elif call in ('instantiate', 'instantiate_pattern'):
        # how many of the patterns directly below the target are plugs, and which metavariables they replace
        avail = 0
        while avail < 2 and len(st) >= avail + 2 and is_pat(st[-2 - avail]):
            avail += 1
        # one key more than there are plugs is tried when nothing else lies below them (the toolkit has to refuse:
        # the emitted Instantiate would underflow the machine's stack)
        short = avail < 2 and len(st) == avail + 1
        k = ctx.choose(avail + (2 if short else 1), 'nplugs')
        orders = [o for o in gens.delta_orders(3) if len(o) == k]
        keys = orders[ctx.choose(len(orders), 'keys')]
        plugs = list(st[-1 - min(k, avail) : -1]) if k else []
        if k > avail:
            plugs.append(plugs[-1] if plugs else P.MetaVar(7))
            d['missing_plug'] = True
        delta = dict(zip(keys, plugs))
        d['keys'] = list(keys)
        if call == 'instantiate':
            it.instantiate(st[-1], delta)
        else:
            it.instantiate_pattern(st[-1], delta)
    elif call == 'save':
        it.save(repr(st[-1]), st[-1])
    elif call == 'load':
        j = ctx.choose(len(it.memory), 'slot')
        d['slot'] = j
        # the label is the rendering of the term, as in MemoizingInterpreter.pattern / ProofExp.load_axiom / translate.py
        it.load(str(it.memory[j]), it.memory[j])
    elif call == 'lookalike':
        # macro step: two different terms with the same rendering are built and saved, then both are loaded
        fam = ctx.choose(4, 'family')
        if fam == 0:
            k = ctx.choose(2, 'mv')
            cfg = MV_CFGS[ctx.choose(5, 'cfg')]  # one non-empty list (the two-list configuration is the known ill-formed one)
            ls = (
                tuple(P.EVar(ctx.int('ce')) for _ in range(cfg[0])),
                tuple(P.SVar(ctx.int('cs')) for _ in range(cfg[1])),
                tuple(P.SVar(ctx.int('cp')) for _ in range(cfg[2])),
                tuple(P.SVar(ctx.int('cn')) for _ in range(cfg[3])),
                tuple(P.EVar(ctx.int('ch')) for _ in range(cfg[4])),
            )
            a, b = P.MetaVar(k), P.MetaVar(k, *ls)
        elif fam == 1:
            a, b = P.Symbol('x1'), P.EVar(1)
        elif fam == 2:
            a, b = P.Symbol('phi0'), P.MetaVar(0)
        else:
            a, b = P.Implies(P.MetaVar(0), P.EVar(1)), P.Implies(P.MetaVar(0, (P.EVar(2),)), P.Symbol('x1'))
        if ctx.choose(2, 'built first') == 1:
            a, b = b, a
        d['terms'] = [repr(a), repr(b)]
        it.save(repr(a), it.pattern(a))
        it.save(repr(b), it.pattern(b))
        first, second = (a, b) if ctx.choose(2, 'loaded first') == 0 else (b, a)
        it.load(str(first), first)
        it.load(str(second), second)
    elif call == 'pop':
        it.pop(st[-1])
    elif call == 'publish':
        if it.phase == ExecutionPhase.Gamma:
            it.publish_axiom(st[-1])
        elif it.phase == ExecutionPhase.Claim:
            it.publish_claim(st[-1])
        else:
            it.publish_proof(st[-1])
    elif call == 'next_phase':
        if it.phase == ExecutionPhase.Gamma:
            it.into_claim_phase()
        else:
            it.into_proof_phase()
    else:
        raise AssertionError(call)
    return d


def streams(it: Any) -> tuple[list, list, list]:
    g, c, p = it._sinks
    return list(g.data), list(c.data), list(p.data)


def entry_term(x: Any, symnum: dict | None = None) -> tuple:
    """stack/memory entry of a Python interpreter -> ('P'|'T', expanded oracle term) with symbols numbered"""
    if is_proved(x):
        return ('T', number_symbols(O.expand(x.conclusion), symnum))
    return ('P', number_symbols(O.expand(x), symnum))


def number_symbols(t: tuple, symnum: dict | None) -> tuple:
    if symnum is None:
        return t
    k = t[0]
    if k == 'sym':
        return ('sym', symnum.get(t[1], t[1]))
    if k in ('imp', 'app'):
        return (k, number_symbols(t[1], symnum), number_symbols(t[2], symnum))
    if k in ('ex', 'mu'):
        return (k, t[1], number_symbols(t[2], symnum))
    if k in ('es', 'ss'):
        return (k, number_symbols(t[1], symnum), t[2], number_symbols(t[3], symnum))
    return t
