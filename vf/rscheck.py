"""Trust in rs2py is earned on every run: the transpiled checker and the real
checker (built from the same source with rustc) are run on the same inputs and
must agree on accept/reject and on the Debug rendering of the final state."""
from __future__ import annotations

import os
import random
import re
import subprocess
import sys
import tempfile
from typing import Any

from . import rs2py
from .rsrt import Panic

from .paths import REPO

LIB = f'{REPO}/rust/src/lib.rs'

HARNESS = r'''
// ---- appended by vf/rscheck.py ----
fn __hex(s: &str) -> Vec<u8> {
    if s == "-" { return Vec::new(); }
    (0..s.len()).step_by(2).map(|i| u8::from_str_radix(&s[i..i + 2], 16).unwrap()).collect()
}

fn main() {
    use std::io::BufRead;
    std::panic::set_hook(Box::new(|_| {}));
    let stdin = std::io::stdin();
    for line in stdin.lock().lines() {
        let line = line.unwrap();
        let parts: Vec<&str> = line.split_whitespace().collect();
        if parts.len() != 3 { println!("?"); continue; }
        let (g, c, p) = (__hex(parts[0]), __hex(parts[1]), __hex(parts[2]));
        let (g1, c1, p1) = (g.clone(), c.clone(), p.clone());
        let v = std::panic::catch_unwind(move || { verify(&g1, &c1, &p1); });
        let st = std::panic::catch_unwind(move || {
            let mut claims: Claims = Vec::new();
            let mut memory: Memory = Vec::new();
            let mut stack: Stack = Vec::new();
            execute_instructions(&g, &mut stack, &mut memory, &mut claims, ExecutionPhase::Gamma);
            stack.clear();
            execute_instructions(&c, &mut stack, &mut memory, &mut claims, ExecutionPhase::Claim);
            stack.clear();
            execute_instructions(&p, &mut stack, &mut memory, &mut claims, ExecutionPhase::Proof);
            format!("{:?} | {:?} | {:?}", stack, memory, claims)
        });
        match (v, st) {
            (Ok(_), Ok(s)) => println!("A {}", s),
            (Ok(_), Err(_)) => println!("A !state-run-panicked"),
            (Err(_), Ok(s)) => println!("R {}", s),
            (Err(_), Err(_)) => println!("R"),
        }
    }
}
'''


def build_batch(outdir: str) -> str:
    src = open(LIB).read()
    # crate-level inner attributes are dropped (the crate becomes a std binary)
    src = re.sub(r'^#!\[[^\]]*\]\s*$', '', src, flags=re.M)
    path = os.path.join(outdir, 'batch.rs')
    open(path, 'w').write(src + HARNESS)
    exe = os.path.join(outdir, 'batch')
    r = subprocess.run(
        ['rustc', '+stable', '--edition', '2021', '-O', '--cap-lints', 'allow', path, '-o', exe], capture_output=True, text=True
    )
    if r.returncode != 0:
        raise RuntimeError('rustc failed on the current lib.rs:\n' + r.stderr[-3000:])
    return exe


def build_real(outdir: str) -> str:
    r = subprocess.run([os.path.join(os.path.dirname(os.path.dirname(os.path.abspath(__file__))), 'tools', 'build_checker.sh'), outdir], capture_output=True, text=True)
    if r.returncode != 0:
        raise RuntimeError('building the real checker failed:\n' + r.stdout + r.stderr + open(os.path.join(outdir, 'build.log')).read()[-3000:])
    return os.path.join(outdir, 'checker')


def real_verdict(exe: str, g: list[int], c: list[int], p: list[int]) -> bool:
    with tempfile.TemporaryDirectory() as d:
        for n, b in (('g', g), ('c', c), ('p', p)):
            open(os.path.join(d, n), 'wb').write(bytes(b))
        r = subprocess.run([exe, os.path.join(d, 'g'), os.path.join(d, 'c'), os.path.join(d, 'p')], capture_output=True)
        return r.returncode == 0


def _hx(b: list[int]) -> str:
    return bytes(b).hex() if b else '-'


def batch_run(exe: str, streams: list[tuple]) -> list[str]:
    inp = '\n'.join(f'{_hx(g)} {_hx(c)} {_hx(p)}' for g, c, p in streams) + '\n'
    r = subprocess.run([exe], input=inp, capture_output=True, text=True)
    out = r.stdout.splitlines()
    if len(out) != len(streams):
        raise RuntimeError(f'batch harness returned {len(out)} lines for {len(streams)} inputs: {r.stderr[-500:]}')
    return out


def py_state(mod: Any, g: list, c: list, p: list) -> str:
    """verdict of the transpiled verify + Debug rendering of the final state of the three phases"""
    sys.setrecursionlimit(max(sys.getrecursionlimit(), 20000))
    try:
        mod.verify(list(g), list(c), list(p))
        v = 'A'
    except Panic:
        v = 'R'
    try:
        claims: list = []
        memory: list = []
        stack: list = []
        mod.execute_instructions(list(g), stack, memory, claims, mod.ExecutionPhase__Gamma)
        del stack[:]
        mod.execute_instructions(list(c), stack, memory, claims, mod.ExecutionPhase__Claim)
        del stack[:]
        mod.execute_instructions(list(p), stack, memory, claims, mod.ExecutionPhase__Proof)
        st = f'{_d(stack)} | {_d(memory)} | {_d(claims)}'
        return f'{v} {st}'
    except Panic:
        return 'A !state-run-panicked' if v == 'A' else 'R'


def _d(l: list) -> str:
    return '[' + ', '.join(repr(x) for x in l) + ']'


# ---------------------------------------------------------------------------
# deterministic corpus of concrete streams


def opcodes() -> dict[str, int]:
    from proof_generation.instruction import Instruction

    return {i.name: int(i) for i in Instruction}


def gen_stream(rnd: random.Random, n: int, phase: str, mem: int) -> tuple[list[int], int]:
    """a stack-aware random instruction stream: mostly well-typed, sometimes not"""
    O = opcodes()
    out: list[int] = []
    st: list[str] = []  # 'P' | 'T'
    ids = [0, 1, 2]

    def rid() -> int:
        return rnd.choice(ids) if rnd.random() < 0.95 else rnd.randrange(256)

    for _ in range(n):
        r = rnd.random()
        if r < 0.06:
            out.append(rnd.randrange(256))
            continue
        cands = ['EVar', 'SVar', 'Symbol', 'CleanMetaVar', 'MetaVar', 'Prop1', 'Prop2', 'Prop3', 'Quantifier', 'Existence']
        if len(st) >= 1:
            cands += ['Save', 'Pop', 'Instantiate0']
            if st[-1] == 'P':
                cands += ['Exists', 'Mu', 'Publish'] * 2
            if st[-1] == 'T':
                cands += ['Generalization', 'Publish']
        if len(st) >= 2:
            if st[-1] == 'P' and st[-2] == 'P':
                cands += ['Implies', 'App', 'ESubst', 'SSubst'] * 2
            if st[-1] == 'T' and st[-2] == 'T':
                cands += ['ModusPonens'] * 3
            if st[-1] == 'T' and st[-2] == 'P':
                cands += ['Substitution', 'Instantiate1'] * 2
            if st[-1] == 'P' and st[-2] == 'P':
                cands += ['Instantiate1']
        if len(st) >= 3 and st[-2] == 'P' and st[-3] == 'P':
            cands += ['Instantiate2'] * 2
        if mem > 0:
            cands += ['Load']
        if rnd.random() < 0.05:
            cands = list(O)
        op = rnd.choice(cands)
        if op in ('EVar', 'SVar', 'Symbol', 'CleanMetaVar'):
            out += [O[op], rid()]
            st.append('P')
        elif op == 'MetaVar':
            out += [O[op], rid()]
            for _k in range(5):
                ln = 0 if rnd.random() < 0.7 else rnd.randrange(1, 3)
                out += [ln] + [rid() for _ in range(ln)]
            st.append('P')
        elif op in ('Prop1', 'Prop2', 'Prop3', 'Quantifier', 'Existence'):
            out.append(O[op])
            st.append('T')
        elif op in ('Exists', 'Mu'):
            out += [O[op], rid()]
        elif op in ('Implies', 'App'):
            out.append(O[op])
            if len(st) >= 2:
                st.pop()
        elif op in ('ESubst', 'SSubst'):
            out += [O[op], rid()]
            if len(st) >= 2:
                st.pop()
        elif op == 'ModusPonens':
            out.append(O[op])
            if len(st) >= 2:
                st.pop()
        elif op == 'Generalization':
            out += [O[op], rid()]
        elif op == 'Substitution':
            out += [O[op], rid()]
            if len(st) >= 2:
                st.pop()
                st[-1] = 'T'
        elif op.startswith('Instantiate'):
            k = int(op[-1]) if op[-1].isdigit() else rnd.randrange(0, 3)
            out += [O['Instantiate'], k] + [rid() for _ in range(k)]
            if len(st) > k:
                top = st.pop()
                for _k in range(k):
                    st.pop()
                st.append(top)
        elif op == 'Save':
            out.append(O[op])
            mem += 1
        elif op == 'Load':
            out += [O[op], rnd.randrange(mem) if (mem > 0 and rnd.random() < 0.9) else rnd.randrange(256)]
            st.append(rnd.choice('PT'))
        elif op == 'Pop':
            out.append(O[op])
            if st:
                st.pop()
        elif op == 'Publish':
            out.append(O[op])
            if st:
                st.pop()
            if phase == 'gamma':
                mem += 1
        else:
            out.append(O[op])
    return out, mem


def corpus(n_random: int = 2500, seed: int = 20260925) -> list[tuple]:
    rnd = random.Random(seed)
    out: list[tuple] = []
    shipped = []
    for base in ('propositional', 'small_theory', 'substitution'):
        t = tuple(list(open(f'{REPO}/proofs/{base}.ml-{s}', 'rb').read()) for s in ('gamma', 'claim', 'proof'))
        shipped.append(t)
        out.append(t)
    import glob

    for gpath in sorted(glob.glob(f'{REPO}/proofs/generated-from-k/*/*.ml-gamma')):
        b = gpath[: -len('.ml-gamma')]
        if os.path.exists(b + '.ml-proof'):
            out.append(tuple(list(open(b + s, 'rb').read()) for s in ('.ml-gamma', '.ml-claim', '.ml-proof')))
    # single-byte mutations and truncations of the two small shipped proofs
    for g, c, p in shipped[1:]:
        for which, buf in enumerate((g, c, p)):
            for pos in range(len(buf)):
                for val in {0, 1, buf[pos] ^ 1, (buf[pos] + 1) % 256, rnd.randrange(256)}:
                    if val == buf[pos]:
                        continue
                    nb = list(buf)
                    nb[pos] = val
                    t = [g, c, p]
                    t[which] = nb
                    out.append(tuple(t))
                t = [g, c, p]
                t[which] = list(buf[:pos])
                out.append(tuple(t))
    for _ in range(n_random):
        g, mem = gen_stream(rnd, rnd.randrange(0, 6), 'gamma', 0) if rnd.random() < 0.5 else ([], 0)
        c, mem = gen_stream(rnd, rnd.randrange(0, 6), 'claim', mem) if rnd.random() < 0.5 else ([], mem)
        p, mem = gen_stream(rnd, rnd.randrange(1, 14), 'proof', mem)
        out.append((g, c, p))
    return out


def validate(mod: Any, exe_batch: str, n_random: int = 2500) -> dict:
    cs = corpus(n_random)
    real = batch_run(exe_batch, cs)
    mism = []
    acc = 0
    for (g, c, p), r in zip(cs, real):
        mine = py_state(mod, g, c, p)
        if r.startswith('A'):
            acc += 1
        if mine != r:
            mism.append({'gamma': g, 'claim': c, 'proof': p, 'real': r[:400], 'transpiled': mine[:400]})
    return {'streams': len(cs), 'accepted_by_real': acc, 'mismatches': mism}


if __name__ == '__main__':
    import json
    import shutil

    d = tempfile.mkdtemp(prefix='rscheck')
    try:
        exe = build_batch(d)
        mod = rs2py.load_checker()
        res = validate(mod, exe)
        print(json.dumps({k: v if k != 'mismatches' else v[:5] for k, v in res.items()}, indent=1)[:6000])
        print('mismatches:', len(res['mismatches']))
    finally:
        shutil.rmtree(d)


# ---------------------------------------------------------------------------
# cached build of the real checker for replays (outside /repo and /verif; removed by the driver at exit)

_REAL: dict = {}


def _src_hash() -> str:
    import hashlib

    h = hashlib.sha1()
    for f in (f'{REPO}/rust/src/lib.rs', f'{REPO}/rust/src/main.rs'):
        h.update(open(f, 'rb').read())
    return h.hexdigest()[:16]


def build_dir() -> str:
    return os.path.join(tempfile.gettempdir(), f'pi2verif-build-{_src_hash()}')


def real_binary() -> str:
    d = build_dir()
    exe = os.path.join(d, 'checker')
    if not os.path.exists(exe):
        tmp = tempfile.mkdtemp(prefix='pi2verif-build-tmp')
        build_real(tmp)
        try:
            os.rename(tmp, d)
        except OSError:
            import shutil

            shutil.rmtree(tmp, ignore_errors=True)
    return exe


def batch_binary() -> str:
    d = build_dir()
    real_binary()
    exe = os.path.join(d, 'batch')
    if not os.path.exists(exe):
        tmp = tempfile.mkdtemp(prefix='pi2verif-batch-tmp')
        build_batch(tmp)
        for f in ('batch', 'batch.rs'):
            try:
                os.rename(os.path.join(tmp, f), os.path.join(d, f))
            except OSError:
                pass
        import shutil

        shutil.rmtree(tmp, ignore_errors=True)
    return exe


def cleanup_builds() -> None:
    import glob
    import shutil

    for d in glob.glob(os.path.join(tempfile.gettempdir(), 'pi2verif-build-*')) + glob.glob(os.path.join(tempfile.gettempdir(), 'pi2verif-batch-*')):
        shutil.rmtree(d, ignore_errors=True)
