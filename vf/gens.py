"""Symbolic generators: tree shapes are decided by ctx.choose (forks without
solver calls), every id inside a shape is a fresh symbolic integer."""
from __future__ import annotations

from dataclasses import dataclass, field
from typing import Any

from proof_generation import pattern as P

SYMS = ('s0', 's1', '⌈_⌉')


@dataclass
class Prof:
    evar: bool = True
    svar: bool = True
    symbol: int = 1  # number of symbol names in the pool
    exists: bool = True
    mu: bool = True
    implies: bool = True
    app: bool = True
    metavars: int = 0  # metavariable ids 0..metavars-1
    # constraint configurations for a metavariable: tuples (ne, ns, npos, nneg[, nctx])
    mv_cfgs: tuple = ((0, 0, 0, 0),)
    subst: bool = False  # ESubst / SSubst nodes over metavariables
    notations: tuple = ()  # live Notation objects (any arity)
    id_hi: int = 255
    bot: bool = False
    sym_names: tuple = ()  # overrides the default symbol name pool
    wf_subst: bool = True  # only non-redundant ESubst/SSubst nodes (docs: the others are ill-formed terms)
    mv_shared: bool = False  # all occurrences of a metavariable id carry the same constraint lists
    raw_inst: bool = False  # Instantiate(pattern, {k: value}) with an arbitrary pattern (partial instantiation)
    nt_key_orders: bool = False  # binary notation applications also built as a completed partial application (keys 1, 0)


CONCRETE = Prof()
META = Prof(metavars=2, subst=True)


def propositional_notations() -> tuple:
    return (P.bot, P.neg, P.top, P._and, P._or, P.equiv)


def _fits(notation: Any, n: int) -> bool:
    return n >= 1 + notation.arity


def _splits(total: int, parts: int) -> list[tuple]:
    """all ways to write total as an ordered sum of `parts` positive ints"""
    if parts == 0:
        return [()] if total == 0 else []
    if parts == 1:
        return [(total,)] if total >= 1 else []
    out = []
    for k in range(1, total - parts + 2):
        for rest in _splits(total - k, parts - 1):
            out.append((k, *rest))
    return out


def gen(ctx: Any, n: int, prof: Prof, meta_only: bool = False) -> Any:
    """a pattern with exactly n constructor nodes (a notation application counts 1)"""
    opts: list[tuple] = []
    if n == 1:
        if not meta_only:
            if prof.evar:
                opts.append(('ev',))
            if prof.svar:
                opts.append(('sv',))
            for i in range(prof.symbol):
                opts.append(('sym', (prof.sym_names or SYMS)[i]))
        for k in range(prof.metavars):
            for cfg in prof.mv_cfgs:
                opts.append(('mv', k, cfg))
        if not meta_only:
            for nt in prof.notations:
                if nt.arity == 0:
                    opts.append(('nt', nt, ()))
    if n >= 2 and not meta_only:
        if prof.exists:
            opts.append(('ex',))
        if prof.mu:
            opts.append(('mu',))
    if n >= 3:
        if not meta_only:
            for sp in _splits(n - 1, 2):
                if prof.implies:
                    opts.append(('imp', sp))
                if prof.app:
                    opts.append(('app', sp))
        if prof.subst and prof.metavars:
            for sp in _splits(n - 1, 2):
                opts.append(('es', sp))
                opts.append(('ss', sp))
    if prof.raw_inst and n >= 3 and not meta_only:
        for sp in _splits(n - 1, 2):
            for mvk in range(prof.metavars):
                opts.append(('ri', sp, mvk))
        if n >= 4 and prof.metavars >= 2:
            for sp in _splits(n - 1, 3):
                opts.append(('ri2', sp, (0, 1)))
                opts.append(('ri2', sp, (1, 0)))
    if not meta_only:
        for nt in prof.notations:
            if nt.arity >= 1 and _fits(nt, n):
                for sp in _splits(n - 1, nt.arity):
                    opts.append(('nt', nt, sp))
    if not opts:
        ctx.assume(False)
    o = opts[ctx.choose(len(opts), 'node')]
    k = o[0]
    if k == 'ev':
        return P.EVar(ctx.int('e', 0, prof.id_hi))
    if k == 'sv':
        return P.SVar(ctx.int('s', 0, prof.id_hi))
    if k == 'sym':
        return P.Symbol(o[1])
    if k == 'mv':
        ne, ns, npos, nneg, *_ctx = o[2]
        nctx = _ctx[0] if _ctx else 0  # optional fifth component: number of app_ctx_holes
        holes = tuple(P.EVar(ctx.int('cx', 0, prof.id_hi)) for _ in range(nctx))
        if prof.mv_shared:
            # one constraint annotation per metavariable id on a path
            cache = getattr(ctx, '_mvcache', None)
            if cache is None or cache[0] != ctx.path_id:
                cache = (ctx.path_id, {})
                ctx._mvcache = cache
            if o[1] in cache[1]:
                return cache[1][o[1]]
            mvn = P.MetaVar(
                o[1],
                tuple(P.EVar(ctx.int('ce', 0, prof.id_hi)) for _ in range(ne)),
                tuple(P.SVar(ctx.int('cs', 0, prof.id_hi)) for _ in range(ns)),
                tuple(P.SVar(ctx.int('cp', 0, prof.id_hi)) for _ in range(npos)),
                tuple(P.SVar(ctx.int('cn', 0, prof.id_hi)) for _ in range(nneg)),
                holes,
            )
            cache[1][o[1]] = mvn
            return mvn
        return P.MetaVar(
            o[1],
            tuple(P.EVar(ctx.int('ce', 0, prof.id_hi)) for _ in range(ne)),
            tuple(P.SVar(ctx.int('cs', 0, prof.id_hi)) for _ in range(ns)),
            tuple(P.SVar(ctx.int('cp', 0, prof.id_hi)) for _ in range(npos)),
            tuple(P.SVar(ctx.int('cn', 0, prof.id_hi)) for _ in range(nneg)),
            holes,
        )
    if k == 'ex':
        return P.Exists(ctx.int('be', 0, prof.id_hi), gen(ctx, n - 1, prof))
    if k == 'mu':
        return P.Mu(ctx.int('bs', 0, prof.id_hi), gen(ctx, n - 1, prof))
    if k == 'imp':
        return P.Implies(gen(ctx, o[1][0], prof), gen(ctx, o[1][1], prof))
    if k == 'app':
        return P.App(gen(ctx, o[1][0], prof), gen(ctx, o[1][1], prof))
    if k == 'es':
        inner = gen(ctx, o[1][0], prof, meta_only=True)
        r = P.ESubst(inner, P.EVar(ctx.int('ve', 0, prof.id_hi)), gen(ctx, o[1][1], prof))
        if prof.wf_subst:
            from . import oracle

            ctx.assume(oracle.doc_wf_subst(oracle.expand(r)))
        return r
    if k == 'ss':
        inner = gen(ctx, o[1][0], prof, meta_only=True)
        r = P.SSubst(inner, P.SVar(ctx.int('vs', 0, prof.id_hi)), gen(ctx, o[1][1], prof))
        if prof.wf_subst:
            from . import oracle

            ctx.assume(oracle.doc_wf_subst(oracle.expand(r)))
        return r
    if k == 'ri':
        from frozendict import frozendict

        body = gen(ctx, o[1][0], prof)
        return P.Instantiate(body, frozendict({o[2]: gen(ctx, o[1][1], prof)}))
    if k == 'ri2':
        from frozendict import frozendict

        body = gen(ctx, o[1][0], prof)
        return P.Instantiate(body, frozendict({o[2][0]: gen(ctx, o[1][1], prof), o[2][1]: gen(ctx, o[1][2], prof)}))
    if k == 'nt':
        args = [gen(ctx, s, prof) for s in o[2]]
        if prof.nt_key_orders and o[1].arity == 2 and ctx.choose(2, 'key order') == 1:
            # the same application, reached by binding the second argument first: Instantiate(definition, {1: b, 0: a})
            from frozendict import frozendict

            return P.Instantiate(o[1].definition, frozendict({1: args[1]})).instantiate({0: args[0]})
        return o[1](*args)
    raise AssertionError(k)


def gen_upto(ctx: Any, nmax: int, prof: Prof, nmin: int = 1) -> Any:
    n = nmin + ctx.choose(nmax - nmin + 1, 'size')
    return gen(ctx, n, prof)


def count_shapes(n: int, prof: Prof) -> int:
    """number of shapes of exactly n nodes (ids not counted) -- for evidence"""
    from functools import lru_cache

    @lru_cache(None)
    def c(n: int, meta_only: bool) -> int:
        t = 0
        if n == 1:
            if not meta_only:
                t += int(prof.evar) + int(prof.svar) + prof.symbol
                t += sum(1 for nt in prof.notations if nt.arity == 0)
            t += prof.metavars * len(prof.mv_cfgs)
        if n >= 2 and not meta_only:
            t += (int(prof.exists) + int(prof.mu)) * c(n - 1, False)
        if n >= 3:
            for a, b in _splits(n - 1, 2):
                if not meta_only:
                    t += (int(prof.implies) + int(prof.app)) * c(a, False) * c(b, False)
                if prof.subst and prof.metavars:
                    t += 2 * c(a, True) * c(b, False)
                if prof.raw_inst and not meta_only:
                    t += prof.metavars * c(a, False) * c(b, False)
            if prof.raw_inst and not meta_only and n >= 4 and prof.metavars >= 2:
                for a, b, d in _splits(n - 1, 3):
                    t += 2 * c(a, False) * c(b, False) * c(d, False)
        if not meta_only:
            for nt in prof.notations:
                if nt.arity >= 1 and n >= 1 + nt.arity:
                    for sp in _splits(n - 1, nt.arity):
                        m = 1
                        for s in sp:
                            m *= c(s, False)
                        t += m
        return t

    return c(n, False)


def describe(p: Any) -> str:
    """printable form of a pattern whose ids may be symbolic"""
    try:
        from . import oracle

        return oracle.show(oracle.expand(p)) if not _has_inst(p) else repr(p)
    except Exception:
        return repr(p)


def _has_inst(p: Any) -> bool:
    n = type(p).__name__
    if n == 'Instantiate':
        return True
    for f in ('left', 'right', 'subpattern', 'pattern', 'plug'):
        if hasattr(p, f) and _has_inst(getattr(p, f)):
            return True
    return False


def from_term(t: tuple) -> Any:
    """oracle term -> repo Pattern without any Instantiate node"""
    k = t[0]
    if k == 'ev':
        return P.EVar(t[1])
    if k == 'sv':
        return P.SVar(t[1])
    if k == 'sym':
        return P.Symbol(t[1])
    if k == 'imp':
        return P.Implies(from_term(t[1]), from_term(t[2]))
    if k == 'app':
        return P.App(from_term(t[1]), from_term(t[2]))
    if k == 'ex':
        return P.Exists(t[1], from_term(t[2]))
    if k == 'mu':
        return P.Mu(t[1], from_term(t[2]))
    if k == 'mv':
        return P.MetaVar(
            t[1],
            tuple(P.EVar(i) for i in t[2]),
            tuple(P.SVar(i) for i in t[3]),
            tuple(P.SVar(i) for i in t[4]),
            tuple(P.SVar(i) for i in t[5]),
            tuple(P.EVar(i) for i in t[6]),
        )
    if k == 'es':
        return P.ESubst(from_term(t[1]), P.EVar(t[2]), from_term(t[3]))
    if k == 'ss':
        return P.SSubst(from_term(t[1]), P.SVar(t[2]), from_term(t[3]))
    raise TypeError(k)


def kinds(p: Any) -> str:
    """coarse, deterministic description of what a pattern contains (for signatures)"""
    s: set[str] = set()

    def walk(q: Any) -> None:
        n = type(q).__name__
        s.add(n)
        for f in ('left', 'right', 'subpattern', 'pattern', 'plug'):
            if hasattr(q, f):
                walk(getattr(q, f))
        if n == 'Instantiate':
            for v in q.inst.values():
                walk(v)

    walk(p)
    return '+'.join(sorted(k for k in s if k in ('Instantiate', 'ESubst', 'SSubst', 'MetaVar')) or ['plain'])


def delta_orders(K: int) -> list[tuple]:
    from itertools import combinations, permutations

    orders: list[tuple] = [()]
    for r in range(1, K + 1):
        for c in combinations(range(K), r):
            orders.extend(permutations(c))
    return orders


def fresh_copy(ctx: Any, t: tuple, hi: int = 255, keep_mv: bool = False) -> tuple:
    """same shape as the oracle term t, every element/set/binder id replaced by a
    fresh symbolic integer (the solver decides which of them are equal)"""
    k = t[0]
    if k == 'ev':
        return ('ev', ctx.int('fe', 0, hi))
    if k == 'sv':
        return ('sv', ctx.int('fs', 0, hi))
    if k == 'sym':
        return t
    if k in ('imp', 'app'):
        return (k, fresh_copy(ctx, t[1], hi, keep_mv), fresh_copy(ctx, t[2], hi, keep_mv))
    if k in ('ex', 'mu'):
        return (k, ctx.int('fb', 0, hi), fresh_copy(ctx, t[2], hi, keep_mv))
    if k == 'mv':
        if keep_mv:
            return t
        return ('mv', t[1]) + tuple(tuple(ctx.int('fc', 0, hi) for _ in l) for l in t[2:])
    if k in ('es', 'ss'):
        return (k, fresh_copy(ctx, t[1], hi, keep_mv), ctx.int('fv', 0, hi), fresh_copy(ctx, t[3], hi, keep_mv))
    raise TypeError(k)


def kind_swap(p: Any) -> Any:
    """the "sibling" of a pattern: same ids, every constructor replaced by the one of the same arity
    (EVar<->SVar, Exists<->Mu, Implies<->App, ESubst<->SSubst; notation applications keep their notation).
    Used for warm-up calls: a result must not depend on what was computed before, and a memo keyed too coarsely
    (by hash, by rendering, by ids without the constructor) confuses exactly such siblings."""
    from frozendict import frozendict
    from proof_generation import pattern as P

    if isinstance(p, P.EVar):
        return P.SVar(p.name)
    if isinstance(p, P.SVar):
        return P.EVar(p.name)
    if isinstance(p, P.Implies):
        return P.App(kind_swap(p.left), kind_swap(p.right))
    if isinstance(p, P.App):
        return P.Implies(kind_swap(p.left), kind_swap(p.right))
    if isinstance(p, P.Exists):
        return P.Mu(p.var, kind_swap(p.subpattern))
    if isinstance(p, P.Mu):
        return P.Exists(p.var, kind_swap(p.subpattern))
    if isinstance(p, P.ESubst):
        return P.SSubst(p.pattern, P.SVar(p.var.name), kind_swap(p.plug))
    if isinstance(p, P.SSubst):
        return P.ESubst(p.pattern, P.EVar(p.var.name), kind_swap(p.plug))
    if isinstance(p, P.Instantiate):
        return P.Instantiate(p.pattern, frozendict({k: kind_swap(v) for k, v in p.inst.items()}))
    return p


def id_shift(p: Any, d: int = 1) -> Any:
    """same shape, every variable id shifted by d (metavariable ids and symbols kept)"""
    from frozendict import frozendict
    from proof_generation import pattern as P

    if isinstance(p, P.EVar):
        return P.EVar(p.name + d)
    if isinstance(p, P.SVar):
        return P.SVar(p.name + d)
    if isinstance(p, (P.Implies, P.App)):
        return type(p)(id_shift(p.left, d), id_shift(p.right, d))
    if isinstance(p, (P.Exists, P.Mu)):
        return type(p)(p.var + d, id_shift(p.subpattern, d))
    if isinstance(p, (P.ESubst, P.SSubst)):
        return type(p)(p.pattern, type(p.var)(p.var.name + d), id_shift(p.plug, d))
    if isinstance(p, P.Instantiate):
        return P.Instantiate(p.pattern, frozendict({k: id_shift(v, d) for k, v in p.inst.items()}))
    return p


def key_swap(p: Any) -> Any:
    """sibling for warm-up calls: in every Instantiate node with two or more entries the values keep their positions
    and the keys are rotated ({k0: a, k1: b} -> {k1: a, k0: b}): same body, same value tuple, different pattern"""
    from frozendict import frozendict
    from proof_generation import pattern as P

    if isinstance(p, (P.Implies, P.App)):
        return type(p)(key_swap(p.left), key_swap(p.right))
    if isinstance(p, (P.Exists, P.Mu)):
        return type(p)(p.var, key_swap(p.subpattern))
    if isinstance(p, (P.ESubst, P.SSubst)):
        return type(p)(p.pattern, p.var, key_swap(p.plug))
    if isinstance(p, P.Instantiate):
        ks = list(p.inst.keys())
        vs = [key_swap(v) for v in p.inst.values()]
        if len(ks) >= 2:
            ks = ks[1:] + ks[:1]
        return P.Instantiate(p.pattern, frozendict(dict(zip(ks, vs))))
    return p


def arg_flip(p: Any) -> Any:
    """sibling for warm-up calls: the arguments of every Instantiate node change their nature -- a metavariable
    argument becomes the element variable of the same number, any other argument becomes a metavariable -- so the same
    notation body is seen with arguments for which a per-body answer (is it an alias of a metavariable? is x fresh?) differs"""
    from frozendict import frozendict
    from proof_generation import pattern as P

    if isinstance(p, (P.Implies, P.App)):
        return type(p)(arg_flip(p.left), arg_flip(p.right))
    if isinstance(p, (P.Exists, P.Mu)):
        return type(p)(p.var, arg_flip(p.subpattern))
    if isinstance(p, (P.ESubst, P.SSubst)):
        return type(p)(p.pattern, p.var, arg_flip(p.plug))
    if isinstance(p, P.Instantiate):
        return P.Instantiate(p.pattern, frozendict({k: (P.EVar(v.name) if isinstance(v, P.MetaVar) else P.MetaVar(k)) for k, v in p.inst.items()}))
    return p


def siblings(p: Any, ctx: Any = None) -> list:
    """with ctx: every rotation of the list is explored (a memo that keeps its first answer is poisoned by whichever
    sibling comes first)"""
    sibs = [kind_swap(p), id_shift(p), key_swap(p), arg_flip(p)]
    if ctx is not None:
        r = ctx.choose(len(sibs), 'first earlier call')
        sibs = sibs[r:] + sibs[:r]
    return sibs
