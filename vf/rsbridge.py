"""building values of the transpiled checker from oracle terms and back"""
from __future__ import annotations

from typing import Any

_MOD: Any = None


def mod() -> Any:
    global _MOD
    if _MOD is None:
        from . import rs2py

        _MOD = rs2py.load_checker()
    return _MOD


def to_rs(t: tuple, symnum: dict | None = None) -> Any:
    m = mod()
    k = t[0]
    if k == 'ev':
        return m.Pattern__EVar(t[1])
    if k == 'sv':
        return m.Pattern__SVar(t[1])
    if k == 'sym':
        if symnum is None:
            symnum = _SYM
        if t[1] not in symnum:
            symnum[t[1]] = len(symnum)
        return m.Pattern__Symbol(symnum[t[1]])
    if k == 'imp':
        return m.Pattern__Implies(to_rs(t[1], symnum), to_rs(t[2], symnum))
    if k == 'app':
        return m.Pattern__App(to_rs(t[1], symnum), to_rs(t[2], symnum))
    if k == 'ex':
        return m.Pattern__Exists(t[1], to_rs(t[2], symnum))
    if k == 'mu':
        return m.Pattern__Mu(t[1], to_rs(t[2], symnum))
    if k == 'mv':
        return m.Pattern__MetaVar(t[1], list(t[2]), list(t[3]), list(t[4]), list(t[5]), list(t[6]))
    if k == 'es':
        return m.Pattern__ESubst(to_rs(t[1], symnum), t[2], to_rs(t[3], symnum))
    if k == 'ss':
        return m.Pattern__SSubst(to_rs(t[1], symnum), t[2], to_rs(t[3], symnum))
    raise TypeError(k)


_SYM: dict = {'s0': 0, 's1': 1, '⌈_⌉': 2}


def from_rs(p: Any, symname: dict | None = None) -> tuple:
    n = type(p).__name__.split('__')[-1]
    if n == 'EVar':
        return ('ev', p.f_0)
    if n == 'SVar':
        return ('sv', p.f_0)
    if n == 'Symbol':
        names = symname if symname is not None else {v: k for k, v in _SYM.items()}
        return ('sym', names.get(p.f_0, p.f_0) if type(p.f_0) is int else p.f_0)
    if n == 'Implies':
        return ('imp', from_rs(p.f_left, symname), from_rs(p.f_right, symname))
    if n == 'App':
        return ('app', from_rs(p.f_left, symname), from_rs(p.f_right, symname))
    if n == 'Exists':
        return ('ex', p.f_var, from_rs(p.f_subpattern, symname))
    if n == 'Mu':
        return ('mu', p.f_var, from_rs(p.f_subpattern, symname))
    if n == 'MetaVar':
        return ('mv', p.f_id, tuple(p.f_e_fresh), tuple(p.f_s_fresh), tuple(p.f_positive), tuple(p.f_negative), tuple(p.f_app_ctx_holes))
    if n == 'ESubst':
        return ('es', from_rs(p.f_pattern, symname), p.f_evar_id, from_rs(p.f_plug, symname))
    if n == 'SSubst':
        return ('ss', from_rs(p.f_pattern, symname), p.f_svar_id, from_rs(p.f_plug, symname))
    raise TypeError(n)
