"""symx -- a small, deterministic, exhaustive symbolic executor for the real
Python code of pi2 (see DESIGN.md 2.1).

* SymInt / SymBool wrap z3 Int / Bool terms.  bool(SymBool) is the fork point.
* Exploration is DFS by re-execution with a decision trail; the z3 solver is
  kept incremental across paths (one push level per decision, popped back to
  the common prefix of consecutive paths).
* A path is explored only if z3 says its path condition is satisfiable, so an
  assertion that evaluates to False on an explored path *is* a counterexample:
  the model of the path condition gives concrete inputs, which are replayed on
  the unmodified code (vf.run does that in a fresh process).
* z3 `unknown` is never swallowed: it marks the run inconclusive.
"""
from __future__ import annotations

import time
from typing import Any, Callable

import z3

CTX: 'Ctx | None' = None


class PathEnd(BaseException):
    """Control-flow exception ending a path (not an Exception on purpose: code
    under test that catches Exception must not swallow it)."""


class Pruned(PathEnd):
    pass


class Cut(PathEnd):
    """Depth limit of the splitting stage reached."""


class ViolationFound(PathEnd):
    pass


class Inconclusive(BaseException):
    pass


class HarnessError(BaseException):
    pass


# --------------------------------------------------------------------------
# proxies


def _lift(o: Any) -> Any:
    if isinstance(o, SymInt):
        return o.t
    if isinstance(o, bool):
        return z3.IntVal(int(o))
    if isinstance(o, int):
        return z3.IntVal(o)
    return NotImplemented


class SymBool:
    __slots__ = ('t',)

    def __init__(self, t: Any):
        self.t = t

    def __bool__(self) -> bool:
        return CTX.fork(self.t)

    # formula-mode combinators (never fork)
    def __and__(self, o: Any) -> Any:
        return s_and(self, o)

    __rand__ = __and__

    def __or__(self, o: Any) -> Any:
        return s_or(self, o)

    __ror__ = __or__

    def __invert__(self) -> Any:
        return s_not(self)

    def __repr__(self) -> str:
        return f'<{self.t}>'


def _b(x: Any) -> Any:
    """bool | SymBool -> z3 term"""
    if isinstance(x, SymBool):
        return x.t
    return z3.BoolVal(bool(x))


def s_and(*xs: Any) -> Any:
    if all(isinstance(x, bool) for x in xs):
        return all(xs)
    if any(x is False for x in xs):
        return False
    ys = [x for x in xs if x is not True]
    if len(ys) == 1 and isinstance(ys[0], SymBool):
        return ys[0]
    return SymBool(z3.And(*[_b(x) for x in ys]))


def s_or(*xs: Any) -> Any:
    if all(isinstance(x, bool) for x in xs):
        return any(xs)
    if any(x is True for x in xs):
        return True
    ys = [x for x in xs if x is not False]
    if len(ys) == 1 and isinstance(ys[0], SymBool):
        return ys[0]
    return SymBool(z3.Or(*[_b(x) for x in ys]))


def s_not(x: Any) -> Any:
    if isinstance(x, SymBool):
        return SymBool(z3.Not(x.t))
    return not x


def s_implies(a: Any, b: Any) -> Any:
    return s_or(s_not(a), b)


def s_iff(a: Any, b: Any) -> Any:
    if isinstance(a, bool) and isinstance(b, bool):
        return a == b
    return SymBool(_b(a) == _b(b))


def s_eq(a: Any, b: Any) -> Any:
    """int|SymInt equality without forking"""
    if isinstance(a, SymInt) or isinstance(b, SymInt):
        return SymBool(_lift(a) == _lift(b))
    return a == b


def s_ite(c: Any, a: Any, b: Any) -> Any:
    """ite over ints"""
    if isinstance(c, bool):
        return a if c else b
    return SymInt(z3.If(c.t, _lift(a), _lift(b)))


def s_bite(c: Any, a: Any, b: Any) -> Any:
    """ite over bools"""
    if isinstance(c, bool):
        return a if c else b
    return SymBool(z3.If(c.t, _b(a), _b(b)))


class SymInt:
    __slots__ = ('t',)

    def __init__(self, t: Any):
        self.t = t

    def _cmp(self, o: Any, f: Callable) -> Any:
        l = _lift(o)
        if l is NotImplemented:
            return NotImplemented
        return SymBool(f(self.t, l))

    def __eq__(self, o: Any) -> Any:  # type: ignore[override]
        l = _lift(o)
        if l is NotImplemented:
            return False
        if isinstance(o, SymInt) and o.t.eq(self.t):
            return True
        return SymBool(self.t == l)

    def __ne__(self, o: Any) -> Any:  # type: ignore[override]
        l = _lift(o)
        if l is NotImplemented:
            return True
        if isinstance(o, SymInt) and o.t.eq(self.t):
            return False
        return SymBool(self.t != l)

    def __lt__(self, o: Any) -> Any:
        return self._cmp(o, lambda a, b: a < b)

    def __le__(self, o: Any) -> Any:
        return self._cmp(o, lambda a, b: a <= b)

    def __gt__(self, o: Any) -> Any:
        return self._cmp(o, lambda a, b: a > b)

    def __ge__(self, o: Any) -> Any:
        return self._cmp(o, lambda a, b: a >= b)

    def __add__(self, o: Any) -> Any:
        l = _lift(o)
        return NotImplemented if l is NotImplemented else SymInt(self.t + l)

    __radd__ = __add__

    def __sub__(self, o: Any) -> Any:
        l = _lift(o)
        return NotImplemented if l is NotImplemented else SymInt(self.t - l)

    def __rsub__(self, o: Any) -> Any:
        l = _lift(o)
        return NotImplemented if l is NotImplemented else SymInt(l - self.t)

    def __mul__(self, o: Any) -> Any:
        l = _lift(o)
        return NotImplemented if l is NotImplemented else SymInt(self.t * l)

    __rmul__ = __mul__

    def __neg__(self) -> Any:
        return SymInt(-self.t)

    def __bool__(self) -> bool:
        return CTX.fork(self.t != 0)

    def __hash__(self) -> int:
        return hash(CTX.concretize(self))

    def __index__(self) -> int:
        return CTX.concretize(self)

    __int__ = __index__

    def __repr__(self) -> str:
        return f'⟨{self.t}⟩'

    __str__ = __repr__

    def __format__(self, spec: str) -> str:
        return repr(self)


def conc(x: Any) -> Any:
    return x


# --------------------------------------------------------------------------
# context


class Stats:
    def __init__(self) -> None:
        self.paths = 0
        self.pruned = 0
        self.decisions = 0
        self.queries = 0
        self.solver_s = 0.0
        self.counters: dict[str, int] = {}
        self.violations: list[dict] = []
        self.samples: list[Any] = []
        self.cut_prefixes: list[list[int]] = []
        self.unknown = 0
        self.complete = True
        self.errors: list[str] = []

    def merge(self, o: 'Stats') -> None:
        self.paths += o.paths
        self.pruned += o.pruned
        self.decisions += o.decisions
        self.queries += o.queries
        self.solver_s += o.solver_s
        for k, v in o.counters.items():
            self.counters[k] = self.counters.get(k, 0) + v
        self.violations.extend(o.violations)
        for s in o.samples:
            if len(self.samples) < 6:
                self.samples.append(s)
        self.unknown += o.unknown
        self.complete = self.complete and o.complete
        self.errors.extend(o.errors)


class Ctx:
    symbolic = True

    def __init__(self, timeout_ms: int = 20000):
        self.solver = z3.Solver()
        self.solver.set('timeout', timeout_ms)
        self.stack: list[Any] = []  # per decision: constraint ast or None
        self.stats = Stats()
        self.trail: list[int] = []
        self.pos = 0
        self.synced = 0
        self.pending: list[list[int]] = []
        self.model: Any = None
        self.nvars = 0
        self.choices: list[int] = []  # choose() results only, in order
        self.vars: list[tuple[str, Any]] = []
        self.max_decisions: int | None = None
        self.deadline: float | None = None
        self.sample_slot: Any = None
        self.sig_counts: dict[str, int] = {}
        self.keep_per_sig = 2

    # -- solver plumbing ---------------------------------------------------
    def _check(self, *assumptions: Any) -> Any:
        t0 = time.time()
        r = self.solver.check(*assumptions)
        self.stats.solver_s += time.time() - t0
        self.stats.queries += 1
        if r == z3.unknown:
            self.stats.unknown += 1
            raise Inconclusive(f'z3 unknown: {self.solver.reason_unknown()}')
        return r

    def _push(self, c: Any) -> None:
        """make decision number self.pos (constraint c, maybe None) current"""
        i = self.pos
        if i < self.synced:
            old = self.stack[i]
            if (old is None) != (c is None) or (c is not None and not old.eq(c)):
                raise HarnessError(f'non-deterministic replay at decision {i}: {old} vs {c}')
        else:
            self.solver.push()
            if c is not None:
                self.solver.add(c)
            self.stack.append(c)
            self.synced = i + 1
        self.pos = i + 1
        self.stats.decisions += 1

    def _model(self) -> Any:
        """a satisfying assignment of the current path condition, as substitution pairs"""
        if self.model is None:
            r = self._check()
            if r != z3.sat:
                raise HarnessError('path condition of an explored path is unsat')
            m = self.solver.model()
            env = []
            for name, v, lo, hi in self.vars:
                val = m.eval(v, model_completion=True).as_long()
                if not (lo <= val <= hi):
                    raise HarnessError(f'model value of {name} outside its domain')
                env.append((v, z3.IntVal(val)))
            self.model = env
        return self.model

    def _eval(self, c: Any) -> bool:
        env = self._model()
        v = z3.simplify(z3.substitute(c, *env)) if env else z3.simplify(c)
        if z3.is_true(v):
            return True
        if z3.is_false(v):
            return False
        raise HarnessError(f'cannot evaluate {c} under the cached model: {v}')

    def _limit(self) -> None:
        if self.max_decisions is not None and self.pos >= self.max_decisions:
            self.stats.cut_prefixes.append(list(self.trail[: self.pos]))
            raise Cut()

    # -- decisions ----------------------------------------------------------
    def fork(self, cond: Any) -> bool:
        c = z3.simplify(cond)
        if z3.is_true(c):
            return True
        if z3.is_false(c):
            return False
        if self.pos < len(self.trail):
            d = self.trail[self.pos]
            # a model cached earlier on this path (e.g. by a soft violation during replay) need not satisfy this constraint
            self.model = None
            self._push(c if d else z3.Not(c))
            return bool(d)
        self._limit()
        side = self._eval(c)
        other = z3.Not(c) if side else c
        r = self._check(other)
        if r == z3.sat:
            self.pending.append(self.trail[: self.pos] + [0 if side else 1])
        self.trail.append(1 if side else 0)
        self._push(c if side else z3.Not(c))
        # model still satisfies the extended path condition
        return side

    def choose(self, n: int, label: str = '') -> int:
        if n <= 0:
            raise Pruned()
        if n == 1:
            self.choices.append(0)
            return 0
        if self.pos < len(self.trail):
            d = self.trail[self.pos]
            self._push(None)
        else:
            self._limit()
            for k in range(n - 1, 0, -1):
                self.pending.append(self.trail[: self.pos] + [k])
            d = 0
            self.trail.append(0)
            self._push(None)
        self.choices.append(d)
        return d

    def concretize(self, s: SymInt, limit: int = 300) -> int:
        t = z3.simplify(s.t)
        if z3.is_int_value(t):
            return t.as_long()
        if self.pos < len(self.trail):
            v = self.trail[self.pos]
            self.model = None
            self._push(t == v)
            return v
        self._limit()
        vals: list[int] = []
        self.solver.push()
        try:
            while True:
                r = self._check()
                if r != z3.sat:
                    break
                v = self.solver.model().eval(t, model_completion=True).as_long()
                if v in vals:
                    raise HarnessError('enumeration repeats a value')
                vals.append(v)
                if len(vals) > limit:
                    raise Inconclusive(f'concretisation of {t} has more than {limit} feasible values')
                self.solver.add(t != v)
        finally:
            self.solver.pop()
        if not vals:
            raise HarnessError('no feasible value')
        vals.sort()
        for v in reversed(vals[1:]):
            self.pending.append(self.trail[: self.pos] + [v])
        self.trail.append(vals[0])
        self.model = None
        self._push(t == vals[0])
        return vals[0]

    # -- harness API ----------------------------------------------------------
    def int(self, label: str = 'v', lo: int = 0, hi: int = 255) -> Any:
        name = f'{label}!{self.nvars}'
        self.nvars += 1
        v = z3.Int(name)
        self.vars.append((name, v, lo, hi))
        if self.pos >= self.synced:
            self.solver.add(v >= lo, v <= hi)
        if self.model is not None:
            # a fresh variable is constrained only by its domain: extend the cached model
            self.model.append((v, z3.IntVal(lo)))
        return SymInt(v)

    def assume(self, cond: Any) -> None:
        if not cond:
            raise Pruned()

    def count(self, key: str, n: int = 1) -> None:
        self.stats.counters[key] = self.stats.counters.get(key, 0) + n

    def sample(self, obj: Any) -> None:
        self.sample_slot = obj

    def violation(self, sig: str, detail: Any = None, values: dict | None = None) -> None:
        """values: name -> int for the symbolic variables, when the caller's own solver query
        (e.g. a semantic obligation) produced the witness; otherwise a model of the path condition is used"""
        n = self.sig_counts.get(sig, 0)
        self.sig_counts[sig] = n + 1
        self.stats.counters['violating_paths'] = self.stats.counters.get('violating_paths', 0) + 1
        if n < self.keep_per_sig:
            env = self._model() if values is None else []
            self.stats.violations.append(
                {
                    'sig': sig,
                    'detail': detail if isinstance(detail, (str, int, type(None), list, dict)) else repr(detail),
                    'choices': list(self.choices),
                    'ints': [val.as_long() for _, val in env] if values is None else [values.get(name, lo) for name, _, lo, _ in self.vars],
                    'trail': list(self.trail[: self.pos]),
                }
            )
        else:
            self.stats.violations.append({'sig': sig, 'more': 1})
        if not self._soft:
            raise ViolationFound()

    _soft = False

    def soft_violation(self, sig: str, detail: Any = None) -> None:
        """records a counterexample but lets the path continue (used where the harness re-synchronises
        after a divergence that is already on record, so that the behaviour behind it stays covered)"""
        self._soft = True
        try:
            self.violation(sig, detail)
        finally:
            self._soft = False

    def check(self, cond: Any, sig: str, detail: Any = None) -> None:
        if not cond:
            self.violation(sig, detail() if callable(detail) else detail)

    # -- exploration -----------------------------------------------------------
    def _begin(self, trail: list[int]) -> None:
        # common prefix with what is on the solver stack
        k = 0
        # the solver stack corresponds to the previous trail prefix self._prev
        prev = self._prev
        n = min(len(prev), len(trail), self.synced)
        while k < n and prev[k] == trail[k]:
            k += 1
        while self.synced > k:
            self.solver.pop()
            self.stack.pop()
            self.synced -= 1
        self.trail = list(trail)
        self.path_id = getattr(self, 'path_id', 0) + 1
        self.pos = 0
        self.nvars = 0
        self.vars = []
        self.choices = []
        self.model = None
        self.sample_slot = None

    def run(
        self,
        harness: Callable[['Ctx'], None],
        prefixes: list[list[int]] | None = None,
        reset: Callable[[], None] | None = None,
    ) -> Stats:
        global CTX
        self.pending = [list(p) for p in (prefixes if prefixes is not None else [[]])]
        self.pending.reverse()
        self._prev: list[int] = []
        CTX = self
        try:
            while self.pending:
                if self.deadline is not None and time.time() > self.deadline:
                    self.stats.complete = False
                    break
                trail = self.pending.pop()
                self._begin(trail)
                if reset is not None:
                    reset()
                try:
                    harness(self)
                    self.stats.paths += 1
                    if self.sample_slot is not None and len(self.stats.samples) < 6:
                        self.stats.samples.append(self.sample_slot)
                except Pruned:
                    self.stats.pruned += 1
                except Cut:
                    pass
                except ViolationFound:
                    self.stats.paths += 1
                except PathEnd:
                    self.stats.paths += 1
                except Inconclusive as e:
                    self.stats.complete = False
                    self.stats.errors.append(f'inconclusive: {e}')
                except (HarnessError, KeyboardInterrupt, SystemExit):
                    raise
                except Exception as e:  # the harness itself failed: never a pass, never a violation
                    import traceback

                    self.stats.complete = False
                    if len(self.stats.errors) < 5:
                        self.stats.errors.append('harness-error: unexpected exception in harness: ' + ''.join(traceback.format_exception(e))[-1500:])
                self._prev = self.trail[: self.pos]
        finally:
            CTX = None
        return self.stats


class ConcreteCtx:
    """Replays one counterexample with plain Python ints (no proxies)."""

    symbolic = False
    path_id = 0

    def __init__(self, choices: list[int], ints: list[int]):
        self._choices = list(choices)
        self._ints = list(ints)
        self.ci = 0
        self.ii = 0
        self.violations: list[dict] = []
        self.counters: dict[str, int] = {}

    def choose(self, n: int, label: str = '') -> int:
        if n <= 0:
            raise Pruned()
        d = self._choices[self.ci] if self.ci < len(self._choices) else 0
        self.ci += 1
        return d

    def int(self, label: str = 'v', lo: int = 0, hi: int = 255) -> int:
        v = self._ints[self.ii] if self.ii < len(self._ints) else lo
        self.ii += 1
        return v

    def assume(self, cond: Any) -> None:
        if not cond:
            raise Pruned()

    def count(self, key: str, n: int = 1) -> None:
        self.counters[key] = self.counters.get(key, 0) + n

    def sample(self, obj: Any) -> None:
        pass

    def violation(self, sig: str, detail: Any = None, values: dict | None = None) -> None:
        self.violations.append({'sig': sig, 'detail': detail if isinstance(detail, (str, int, type(None), list, dict)) else repr(detail)})
        raise ViolationFound()

    def soft_violation(self, sig: str, detail: Any = None) -> None:
        self.violations.append({'sig': sig, 'detail': detail if isinstance(detail, (str, int, type(None), list, dict)) else repr(detail)})

    def check(self, cond: Any, sig: str, detail: Any = None) -> None:
        if not cond:
            self.violation(sig, detail() if callable(detail) else detail)


def run_concrete(harness: Callable[[Any], None], choices: list[int], ints: list[int]) -> ConcreteCtx:
    global CTX
    c = ConcreteCtx(choices, ints)
    CTX = None
    try:
        harness(c)
    except PathEnd:
        pass
    return c
