"""Harness-side instrumentation of the repo modules (no source change):
id-blind structural hashing of patterns, symbolic `bytes`, cache clearing."""
from __future__ import annotations

import sys
from typing import Any

from . import symx

_installed = False
_orig_hash: dict[type, Any] = {}


def _h_int(x: Any) -> int:
    return x if type(x) is int else 0


def install_hash() -> None:
    """Equal patterns keep equal hashes; element/set/binder ids do not influence
    the hash, so patterns whose ids are symbolic can live in sets and dicts and
    colliding entries are separated by ==, which forks."""
    global _installed
    if _installed:
        return
    from proof_generation import pattern as P

    def mk(cls: type, f: Any) -> None:
        _orig_hash[cls] = cls.__hash__
        cls.__hash__ = f  # type: ignore[method-assign]

    mk(P.EVar, lambda s: 11)
    mk(P.SVar, lambda s: 13)
    mk(P.Symbol, lambda s: hash(('Sym', s.name)))
    mk(P.Implies, lambda s: hash(('Imp', hash(s.left), hash(s.right))))
    mk(P.App, lambda s: hash(('App', hash(s.left), hash(s.right))))
    mk(P.Exists, lambda s: hash(('Ex', hash(s.subpattern))))
    mk(P.Mu, lambda s: hash(('Mu', hash(s.subpattern))))
    mk(
        P.MetaVar,
        lambda s: hash(('MV', _h_int(s.name), len(s.e_fresh), len(s.s_fresh), len(s.positive), len(s.negative), len(s.app_ctx_holes))),
    )
    mk(P.ESubst, lambda s: hash(('ES', hash(s.pattern), hash(s.plug))))
    mk(P.SSubst, lambda s: hash(('SS', hash(s.pattern), hash(s.plug))))
    mk(P.Instantiate, lambda s: hash(('Inst', hash(s.pattern), hash(s.inst))))
    _installed = True


def uninstall_hash() -> None:
    global _installed
    for cls, h in _orig_hash.items():
        cls.__hash__ = h  # type: ignore[method-assign]
    _orig_hash.clear()
    _installed = False


class SymBytes(list):
    """what the shadowed `bytes(...)` returns: a list of int | SymInt"""


def sym_bytes(arg: Any = ()) -> Any:
    out = SymBytes()
    for v in arg:
        if isinstance(v, symx.SymInt):
            # the real bytes() contract
            if v < 0 or v > 255:
                raise ValueError('bytes must be in range(0, 256)')
            out.append(v)
        else:
            v = int(v)
            if not 0 <= v <= 255:
                raise ValueError('bytes must be in range(0, 256)')
            out.append(v)
    return out


class Sink:
    """in-memory stand-in for the three output files"""

    def __init__(self) -> None:
        self.data: list[Any] = []
        self.closed = False

    def write(self, b: Any) -> None:
        if isinstance(b, str):
            self.data.append(b)
        else:
            self.data.extend(list(b))

    def close(self) -> None:
        self.closed = True


def shadow_bytes(on: bool = True) -> None:
    from proof_generation import serializing_interpreter as S

    if on:
        S.bytes = sym_bytes  # type: ignore[attr-defined]
    elif 'bytes' in vars(S):
        del S.bytes  # type: ignore[attr-defined]


_WALKED = False
_STATE: dict[int, tuple] = {}
_SCANNED: set[str] = set()
STATE_MUTATIONS: dict[str, int] = {}


def _containers(name: str, m: Any) -> Any:
    """module-level and class-level mutable containers and mutable default arguments of a repo module"""
    import types

    holders: list[tuple[str, Any]] = [(name, m)]
    for k, v in list(vars(m).items()):
        if isinstance(v, type) and getattr(v, '__module__', None) == name:
            holders.append((f'{name}.{k}', v))
    for hn, h in holders:
        for k, v in list(vars(h).items()):
            if isinstance(v, (dict, list, set)) and not k.startswith('__'):
                yield f'{hn}.{k}', v
            f = v.__func__ if isinstance(v, (classmethod, staticmethod)) else v
            if isinstance(f, types.FunctionType) and getattr(f, '__module__', None) == name:
                for i, d in enumerate((f.__defaults__ or ()) + tuple((f.__kwdefaults__ or {}).values())):
                    if isinstance(d, (dict, list, set)):
                        yield f'{hn}.{k}(default {i})', d


def reset_caches() -> None:
    """called before every explored path: every path starts from the process state the modules had when they were
    first seen -- functools caches cleared, module-/class-level containers and mutable default arguments of the
    repo's modules restored.  State that leaks between calls is therefore only visible to a harness that makes the
    earlier calls itself (the history / warm-up levels), and then it replays; symbolic values of an earlier path can
    never reach a later one."""
    global _WALKED
    if not _WALKED:
        # import every repo module now, so that each is first seen in the state it has before any path ran
        _WALKED = True
        import importlib
        import pkgutil

        try:
            import proof_generation as _pg

            for mi in pkgutil.walk_packages(_pg.__path__, 'proof_generation.'):
                try:
                    importlib.import_module(mi.name)
                except Exception:
                    pass
        except Exception:
            pass
    for name, m in list(sys.modules.items()):
        if not name.startswith('proof_generation'):
            continue
        for v in list(vars(m).values()):
            for w in [v] + ([x for x in vars(v).values()] if isinstance(v, type) and getattr(v, '__module__', None) == name else []):
                cc = getattr(w, 'cache_clear', None)
                if cc is not None and callable(cc):
                    try:
                        cc()
                    except Exception:
                        pass
        if name not in _SCANNED:
            _SCANNED.add(name)
            for label, obj in _containers(name, m):
                if id(obj) not in _STATE:
                    _STATE[id(obj)] = (label, obj, obj.copy())
    for label, obj, saved in _STATE.values():
        if len(obj) != len(saved):
            STATE_MUTATIONS[label] = STATE_MUTATIONS.get(label, 0) + 1
        elif not obj:
            continue
        if isinstance(obj, dict):
            obj.clear()
            obj.update(saved)
        elif isinstance(obj, list):
            obj[:] = saved
        else:
            obj.clear()
            obj.update(saved)
