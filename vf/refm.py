"""refm -- the stack machine of docs/proof-language.md, written from the document
(no code shared with rust/src/lib.rs or the Python interpreters).

Runs on lists of int | SymInt.  Verdicts: accept / reject(reason) /
unspecified(reason) -- the document is informal and in places silent; a
comparing check skips (and counts) unspecified runs.  See DESIGN.md 2.3 for what
is taken as normative (n), unspecified (u1-u3) and assumed (a1-a5)."""
from __future__ import annotations

from typing import Any

from . import oracle as O


class Reject(Exception):
    pass


class Unspecified(Exception):
    pass


def opcodes() -> dict[str, int]:
    from proof_generation.instruction import Instruction

    return {i.name: int(i) for i in Instruction}


UNDEFINED_IN_DOC = ('PropagationOr', 'PropagationExists', 'PreFixpoint', 'Existence', 'Singleton', 'Frame', 'Substitution', 'KnasterTarski')


def mv(i: int, ef: tuple = ()) -> tuple:
    return ('mv', i, ef, (), (), (), ())


BOT = ('mu', 0, ('sv', 0))


def neg(p: tuple) -> tuple:
    return ('imp', p, BOT)


PROP1 = ('imp', mv(0), ('imp', mv(1), mv(0)))
PROP2 = ('imp', ('imp', mv(0), ('imp', mv(1), mv(2))), ('imp', ('imp', mv(0), mv(1)), ('imp', mv(0), mv(2))))
PROP3 = ('imp', neg(neg(mv(0))), mv(0))
QUANT = ('imp', ('es', mv(0), 0, ('ev', 1)), ('ex', 0, mv(0)))


# -- substitution with "would capture" made explicit (u2) ------------------------


def subst_e(a: tuple, x: Any, plug: tuple) -> tuple:
    k = a[0]
    if k == 'ev':
        if a[1] == x:
            return plug
        return a
    if k in ('sv', 'sym'):
        return a
    if k in ('imp', 'app'):
        return (k, subst_e(a[1], x, plug), subst_e(a[2], x, plug))
    if k == 'ex':
        if a[1] == x:
            return a
        if not O.doc_e_fresh(plug, a[1]):
            raise Unspecified('u2: substitution under a binder that the plug mentions (document is silent on capture)')
        return ('ex', a[1], subst_e(a[2], x, plug))
    if k == 'mu':
        if not O.doc_s_fresh(plug, a[1]):
            raise Unspecified('u2: substitution under a binder that the plug mentions (document is silent on capture)')
        return ('mu', a[1], subst_e(a[2], x, plug))
    # meta-patterns: the substitution stays pending
    if O.doc_e_fresh(a, x) or (plug[0] == 'ev' and plug[1] == x):
        raise Unspecified('u4: the pending substitution would be redundant, i.e. an ill-formed term (meta_substitute is not defined by the document)')
    return ('es', a, x, plug)


def subst_s(a: tuple, X: Any, plug: tuple) -> tuple:
    k = a[0]
    if k == 'sv':
        if a[1] == X:
            return plug
        return a
    if k in ('ev', 'sym'):
        return a
    if k in ('imp', 'app'):
        return (k, subst_s(a[1], X, plug), subst_s(a[2], X, plug))
    if k == 'mu':
        if a[1] == X:
            return a
        if not O.doc_s_fresh(plug, a[1]):
            raise Unspecified('u2: substitution under a binder that the plug mentions (document is silent on capture)')
        return ('mu', a[1], subst_s(a[2], X, plug))
    if k == 'ex':
        if not O.doc_e_fresh(plug, a[1]):
            raise Unspecified('u2: substitution under a binder that the plug mentions (document is silent on capture)')
        return ('ex', a[1], subst_s(a[2], X, plug))
    if O.doc_s_fresh(a, X) or (plug[0] == 'sv' and plug[1] == X):
        raise Unspecified('u4: the pending substitution would be redundant, i.e. an ill-formed term (meta_substitute is not defined by the document)')
    return ('ss', a, X, plug)


def meta_substitute(a: tuple, ids: list, plugs: list) -> tuple:
    """simultaneous; the first matching id wins (metavar_ids.index)"""
    k = a[0]
    if k in ('ev', 'sv', 'sym'):
        return a
    if k in ('imp', 'app'):
        return (k, meta_substitute(a[1], ids, plugs), meta_substitute(a[2], ids, plugs))
    if k in ('ex', 'mu'):
        return (k, a[1], meta_substitute(a[2], ids, plugs))
    if k == 'mv':
        for i, p in zip(ids, plugs):
            if i == a[1]:
                return p
        return a
    if k == 'es':
        return subst_e(meta_substitute(a[1], ids, plugs), a[2], meta_substitute(a[3], ids, plugs))
    if k == 'ss':
        return subst_s(meta_substitute(a[1], ids, plugs), a[2], meta_substitute(a[3], ids, plugs))
    raise TypeError(k)


def check_constraints(a: tuple, ids: list, plugs: list) -> None:
    for node in O.all_metavar_nodes(a):
        plug = None
        for i, p in zip(ids, plugs):
            if i == node[1]:
                plug = p
                break
        if plug is None:
            continue
        if node[6]:
            raise Unspecified('u3: instantiation of a metavariable with app_ctx_holes (pattern.app_ctx_holes is never defined)')
        for x in node[2]:
            if not O.doc_e_fresh(plug, x):
                raise Reject('instantiation breaks an e_fresh constraint')
        for X in node[3]:
            if not O.doc_s_fresh(plug, X):
                raise Reject('instantiation breaks an s_fresh constraint')
        for X in node[4]:
            if not O.doc_polarity(plug, X, True):
                raise Reject('instantiation breaks a positivity constraint')
        for X in node[5]:
            if not O.doc_polarity(plug, X, False):
                raise Reject('instantiation breaks a negativity constraint')


class Machine:
    def __init__(self) -> None:
        self.stack: list[tuple] = []  # ('P', term) | ('T', term)
        self.memory: list[tuple] = []
        self.claims: list[tuple] = []
        self.trace: list[tuple] = []  # disassembly: (opname, operands)
        self.starts: list[tuple] = []  # (phase, offset) of every instruction start
        self.OP = opcodes()
        self.BY = {v: k for k, v in self.OP.items()}

    # -- helpers
    def pop(self) -> tuple:
        if not self.stack:
            raise Reject('stack underflow')
        return self.stack.pop()

    def pop_p(self) -> tuple:
        e = self.pop()
        if e[0] != 'P':
            raise Reject('expected a pattern on the stack')
        return e[1]

    def pop_t(self) -> tuple:
        e = self.pop()
        if e[0] != 'T':
            raise Reject('expected a proof on the stack')
        return e[1]

    def run(self, buf: list, phase: str) -> None:
        OP = self.OP
        pos = 0

        def nxt(what: str) -> Any:
            nonlocal pos
            if pos >= len(buf):
                raise Reject(f'operand exhausted: {what}')
            v = buf[pos]
            pos += 1
            return v

        def read_list() -> tuple:
            n = nxt('list length')
            out = []
            k = 0
            while k < n:
                out.append(nxt('list element'))
                k += 1
            return tuple(out)

        while pos < len(buf):
            self.starts.append((phase, pos))
            b = buf[pos]
            pos += 1
            name = None
            for nm, code in OP.items():
                if b == code:
                    name = nm
                    break
            if name is None:
                raise Reject('unknown opcode')
            if name in UNDEFINED_IN_DOC:
                raise Unspecified(f'u1: {name} is listed but not defined in the document')
            if name == 'EVar':
                i = nxt('EVar id')
                self.trace.append((name, i))
                self.stack.append(('P', ('ev', i)))
            elif name == 'SVar':
                i = nxt('SVar id')
                self.trace.append((name, i))
                self.stack.append(('P', ('sv', i)))
            elif name == 'Symbol':
                i = nxt('Symbol id')
                self.trace.append((name, i))
                self.stack.append(('P', ('sym', i)))
            elif name in ('Implies', 'App'):
                self.trace.append((name,))
                r = self.pop_p()
                l = self.pop_p()
                self.stack.append(('P', ('imp' if name == 'Implies' else 'app', l, r)))
            elif name == 'Exists':
                i = nxt('binder id')
                self.trace.append((name, i))
                self.stack.append(('P', ('ex', i, self.pop_p())))
            elif name == 'Mu':
                i = nxt('binder id')
                self.trace.append((name, i))
                body = self.pop_p()
                if not O.doc_polarity(body, i, True):
                    raise Reject('mu: bound variable occurs non-positively')
                self.stack.append(('P', ('mu', i, body)))
            elif name == 'MetaVar':
                i = nxt('MetaVar id')
                ls = [read_list() for _ in range(5)]
                self.trace.append((name, i, *ls))
                for h in ls[4]:
                    if O._in(h, ls[0]):
                        raise Reject('metavar: app_ctx_holes not disjoint from e_fresh')
                self.stack.append(('P', ('mv', i, *ls)))
            elif name == 'CleanMetaVar':
                i = nxt('MetaVar id')
                self.trace.append((name, i))
                self.stack.append(('P', ('mv', i, (), (), (), (), ())))
            elif name in ('ESubst', 'SSubst'):
                i = nxt('substituted variable id')
                self.trace.append((name, i))
                phi = self.pop_p()
                psi = self.pop_p()
                t = ('es' if name == 'ESubst' else 'ss', phi, i, psi)
                if phi[0] not in ('mv', 'es', 'ss'):
                    raise Reject('substitution on a non-meta-pattern')
                if not O.doc_wf_subst(t):
                    raise Reject('redundant substitution')
                self.stack.append(('P', t))
            elif name in ('Prop1', 'Prop2', 'Prop3', 'Quantifier'):
                self.trace.append((name,))
                self.stack.append(('T', {'Prop1': PROP1, 'Prop2': PROP2, 'Prop3': PROP3, 'Quantifier': QUANT}[name]))
            elif name == 'ModusPonens':
                self.trace.append((name,))
                right = self.pop_t()
                left = self.pop_t()
                if left[0] != 'imp':
                    raise Reject('modus ponens: left premise is not an implication')
                if not O.eq(left[1], right):
                    raise Reject('modus ponens: antecedent mismatch')
                self.stack.append(('T', left[2]))
            elif name == 'Generalization':
                prem = self.pop_t()
                if prem[0] != 'imp':
                    raise Reject('generalization: premise is not an implication')
                i = nxt('generalized variable')
                self.trace.append((name, i))
                if not O.doc_e_fresh(prem[2], i):
                    raise Reject('generalization: variable free in the consequent')
                self.stack.append(('T', ('imp', ('ex', i, prem[1]), prem[2])))
            elif name == 'Instantiate':
                n = nxt('number of instantiations')
                target = self.pop()
                ids: list = []
                plugs: list = []
                k = 0
                while k < n:
                    ids.append(nxt('instantiated metavariable id'))
                    plugs.append(self.pop_p())
                    k += 1
                self.trace.append((name, n, *ids))
                check_constraints(target[1], ids, plugs)
                self.stack.append((target[0], meta_substitute(target[1], ids, plugs)))
            elif name == 'Pop':
                self.trace.append((name,))
                self.pop()
            elif name == 'Save':
                self.trace.append((name,))
                if not self.stack:
                    raise Reject('save on an empty stack')
                self.memory.append(self.stack[-1])
            elif name == 'Load':
                i = nxt('memory index')
                self.trace.append((name, i))
                if i < 0 or i >= len(self.memory):
                    raise Reject('load: bad memory index')
                self.stack.append(self.memory[i])
            elif name == 'Publish':
                self.trace.append((name,))
                if phase == 'gamma':
                    self.memory.append(('T', self.pop_p()))
                elif phase == 'claim':
                    self.claims.append(self.pop_p())
                else:
                    if not self.claims:
                        raise Reject('publish: no claim left')
                    claim = self.claims.pop()
                    thm = self.pop_t()
                    if not O.eq(claim, thm):
                        raise Reject('publish: theorem differs from the claim')
            else:
                raise Unspecified(f'opcode {name} not modelled')


def verify(gamma: list, claims: list, proof: list) -> Machine:
    """raises Reject / Unspecified; returns the final machine on acceptance"""
    m = Machine()
    m.run(gamma, 'gamma')
    m.stack = []
    m.run(claims, 'claim')
    m.stack = []
    m.run(proof, 'proof')
    if m.claims:
        raise Reject('claims left unproved')
    return m


def disassemble(buf: list, phase: str = 'gamma', machine: Machine | None = None) -> list[tuple]:
    m = machine or Machine()
    n0 = len(m.trace)
    m.run(buf, phase)
    return m.trace[n0:]


ONE_OPERAND = ('EVar', 'SVar', 'Symbol', 'Exists', 'Mu', 'ESubst', 'SSubst', 'Generalization', 'Substitution', 'Load', 'CleanMetaVar')


def boundaries(buf: list) -> list[int] | None:
    """offsets at which an instruction starts, by operand layout only (no semantics);
    None if the buffer does not decode (unknown opcode, symbolic length)"""
    OP = opcodes()
    BY = {v: k for k, v in OP.items()}
    out = []
    pos = 0
    while pos < len(buf):
        out.append(pos)
        b = buf[pos]
        if not isinstance(b, int) or b not in BY:
            return None
        name = BY[b]
        pos += 1
        if name in ONE_OPERAND:
            pos += 1
        elif name == 'MetaVar':
            pos += 1
            for _ in range(5):
                if pos >= len(buf) or not isinstance(buf[pos], int):
                    return None
                pos += 1 + buf[pos]
        elif name == 'Instantiate':
            if pos >= len(buf) or not isinstance(buf[pos], int):
                return None
            pos += 1 + buf[pos]
    if pos != len(buf):
        return None
    return out
