"""Nondeterministic iteration order of hash-ordered containers.

"Every hash seed" is modelled as "every iteration order of every set/frozenset
that is iterated": selected repo modules are loaded through an AST rewrite (from
their current source, at import time) that routes every iteration site --
for loops, comprehensions, list()/tuple()/sorted()/min()/max()/enumerate()/
zip()/iter()/join() arguments -- through nd(), which, for a set, returns its
elements in an order chosen by forking (all n! orders up to 4 elements, the
natural and the reversed order beyond that, counted as outside the exhaustive claim)."""
from __future__ import annotations

import ast
import importlib.abc
import importlib.machinery
import importlib.util
import sys
from itertools import permutations
from typing import Any

from . import symx

ACTIVE = False
MAX_DEVIATIONS = 1
POLICY = ''
_ORDER: dict = {}
STATS = {'permuted_small': 0, 'two_orders_large': 0}
WRAP_FUNCS = {'list', 'tuple', 'sorted', 'min', 'max', 'enumerate', 'zip', 'iter', 'next', 'sum', 'dict'}
MODULES: set = set()


def reset() -> None:
    _ORDER.clear()


def nd(x: Any) -> Any:
    if not isinstance(x, (set, frozenset)):
        return x
    n = len(x)
    if n <= 1 or not ACTIVE or symx.CTX is None:
        return x
    key = id(x)
    items = list(x)
    got = _ORDER.get(key)
    if got is not None and got[0] == n and set(got[1]) == set(map(id, items)):
        byid = {id(i): i for i in items}
        return [byid[j] for j in got[1]]
    ctx = symx.CTX
    if POLICY:
        # one global re-ordering rule applied consistently at every iteration event of the run
        if POLICY == 'reversed':
            out = list(reversed(items))
        else:
            import hashlib

            out = sorted(items, key=lambda e: hashlib.sha1((POLICY + repr(e)).encode()).digest())
        ctx.count('iteration_events_reordered_by_policy')
        return out
    # at most MAX_DEVIATIONS iteration events per path leave the natural order (all others keep it)
    st = getattr(ctx, '_nd_dev', None)
    if st is None or st[0] != ctx.path_id:
        st = [ctx.path_id, 0]
        ctx._nd_dev = st
    if st[1] >= MAX_DEVIATIONS:
        return x
    if n <= 4:
        ps = list(permutations(range(n)))
        k = ctx.choose(len(ps), 'set-order')
        p = ps[k]
        ctx.count('iteration_events_permuted_exhaustively')
    else:
        k = ctx.choose(3, 'set-order-large')
        p = tuple(range(n)) if k == 0 else tuple(reversed(range(n))) if k == 1 else tuple(range(1, n)) + (0,)
        ctx.count('iteration_events_large_set_three_orders')
    if k != 0:
        st[1] += 1
    out = [items[i] for i in p]
    _ORDER[key] = (n, [id(i) for i in out], x)  # keep x alive so that the id stays unique on this path
    return out


class _Rewrite(ast.NodeTransformer):
    def _wrap(self, e: Any) -> Any:
        return ast.copy_location(ast.Call(func=ast.Name(id='nd_iter_hook_', ctx=ast.Load()), args=[e], keywords=[]), e)

    def visit_For(self, node: ast.For) -> Any:
        self.generic_visit(node)
        node.iter = self._wrap(node.iter)
        return node

    def visit_comprehension(self, node: ast.comprehension) -> Any:
        self.generic_visit(node)
        node.iter = self._wrap(node.iter)
        return node

    def visit_Call(self, node: ast.Call) -> Any:
        self.generic_visit(node)
        if isinstance(node.func, ast.Name) and node.func.id in WRAP_FUNCS and node.args:
            if node.func.id == 'zip':
                node.args = [self._wrap(a) for a in node.args]
            else:
                node.args[0] = self._wrap(node.args[0])
        if isinstance(node.func, ast.Attribute) and node.func.attr == 'join' and node.args:
            node.args[0] = self._wrap(node.args[0])
        return node


class _Loader(importlib.abc.Loader):
    def __init__(self, path: str):
        self.path = path

    def create_module(self, spec: Any) -> Any:
        return None

    def exec_module(self, module: Any) -> None:
        src = open(self.path).read()
        tree = _Rewrite().visit(ast.parse(src, self.path))
        ast.fix_missing_locations(tree)
        module.__dict__['nd_iter_hook_'] = nd
        module.__file__ = self.path
        exec(compile(tree, self.path, 'exec'), module.__dict__)


class _Finder(importlib.abc.MetaPathFinder):
    def find_spec(self, name: str, path: Any, target: Any = None) -> Any:
        if name not in MODULES:
            return None
        spec = importlib.machinery.PathFinder.find_spec(name, path)
        if spec is None or not spec.origin or not spec.origin.endswith('.py'):
            return None
        return importlib.util.spec_from_loader(name, _Loader(spec.origin), origin=spec.origin, is_package=False)


_installed = False


def install(modules: list[str]) -> None:
    """(re)load the given modules through the rewrite; everything of proof_generation except the pattern module is purged first"""
    global _installed
    MODULES.update(modules)
    for k in list(sys.modules):
        if k.startswith('proof_generation.') and k not in ('proof_generation.pattern',):
            del sys.modules[k]
    if not _installed:
        sys.meta_path.insert(0, _Finder())
        _installed = True
