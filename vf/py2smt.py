"""py2smt-mini: translates one arithmetic kernel (convert_to_number inside
MetamathConverter._import_proof) from its Python AST into a z3 integer term.
Anything outside the handful of constructs it knows makes it raise Unsupported
(the check then ends inconclusive, never passing)."""
from __future__ import annotations

import ast
from typing import Any

import z3


class Unsupported(Exception):
    pass


class KeyErrorFlag:
    """tracks whether a dict lookup can miss (as a z3 Bool)"""

    def __init__(self) -> None:
        self.cond = z3.BoolVal(False)


def find_kernel(path: str = '') -> tuple:
    """-> (FunctionDef of convert_to_number, dict literals of the enclosing function as python dicts)"""
    from .paths import REPO

    path = path or f'{REPO}/generation/src/proof_generation/metamath/converter/converter.py'
    tree = ast.parse(open(path).read())
    outer = None
    for node in ast.walk(tree):
        if isinstance(node, ast.FunctionDef) and node.name == '_import_proof':
            outer = node
    if outer is None:
        raise Unsupported('_import_proof not found')
    kernel = None
    env: dict[str, Any] = {}
    for st in outer.body:
        if isinstance(st, ast.FunctionDef) and st.name == 'convert_to_number':
            kernel = st
        if isinstance(st, ast.Assign) and len(st.targets) == 1 and isinstance(st.targets[0], ast.Name):
            # literal tables / constants of the enclosing function (dicts, tuples, lists, ints)
            try:
                v = ast.literal_eval(st.value)
            except (ValueError, SyntaxError):
                if isinstance(st.value, ast.Dict):
                    raise Unsupported(f'dict {st.targets[0].id} is not a literal')
                continue
            env[st.targets[0].id] = list(v) if isinstance(v, tuple) else v
    if kernel is None:
        raise Unsupported('convert_to_number not found')
    return kernel, env


class Interp:
    """symbolic evaluation of the kernel on a word of fixed length whose letters are z3 ints (code points)"""

    def __init__(self, env: dict, flag: KeyErrorFlag):
        self.genv = env
        self.flag = flag

    def run(self, fn: ast.FunctionDef, word: list) -> Any:
        if len(fn.args.args) != 1:
            raise Unsupported('kernel signature')
        env: dict[str, Any] = {fn.args.args[0].arg: list(word)}
        r = self.block(fn.body, env)
        if r is None:
            raise Unsupported('kernel does not return on every path')
        return r

    def block(self, body: list, env: dict) -> Any:
        for st in body:
            if isinstance(st, ast.Assign):
                if len(st.targets) != 1:
                    raise Unsupported('multiple targets')
                self.assign(st.targets[0], self.expr(st.value, env), env)
            elif isinstance(st, ast.AnnAssign):
                if st.value is None:
                    raise Unsupported('annotation without value')
                self.assign(st.target, self.expr(st.value, env), env)
            elif isinstance(st, ast.AugAssign):
                if not isinstance(st.target, ast.Name):
                    raise Unsupported('augmented assignment target')
                cur = env[st.target.id]
                env[st.target.id] = self.binop(st.op, cur, self.expr(st.value, env))
            elif isinstance(st, ast.For):
                it = self.expr(st.iter, env)
                if not isinstance(it, list) or st.orelse:
                    raise Unsupported('for over a non-list')
                for v in it:
                    self.assign(st.target, v, env)
                    r = self.block(st.body, env)
                    if r is not None:
                        return r
            elif isinstance(st, ast.Return):
                return self.expr(st.value, env)
            elif isinstance(st, ast.Expr) and isinstance(st.value, ast.Constant):
                continue  # docstring
            else:
                raise Unsupported(f'statement {type(st).__name__} at line {st.lineno}')
        return None

    def assign(self, tgt: Any, val: Any, env: dict) -> None:
        if isinstance(tgt, ast.Name):
            env[tgt.id] = val
        elif isinstance(tgt, (ast.Tuple, ast.List)):
            if not isinstance(val, list):
                raise Unsupported('unpacking a non-list')
            star = [i for i, e in enumerate(tgt.elts) if isinstance(e, ast.Starred)]
            if len(star) > 1:
                raise Unsupported('two starred targets')
            if not star:
                if len(val) != len(tgt.elts):
                    raise Unsupported('unpack length')
                for e, v in zip(tgt.elts, val):
                    self.assign(e, v, env)
            else:
                s = star[0]
                after = len(tgt.elts) - s - 1
                if len(val) < len(tgt.elts) - 1:
                    raise Unsupported('unpack length')
                for e, v in zip(tgt.elts[:s], val[:s]):
                    self.assign(e, v, env)
                self.assign(tgt.elts[s].value, val[s : len(val) - after], env)
                for e, v in zip(tgt.elts[s + 1 :], val[len(val) - after :]):
                    self.assign(e, v, env)
        else:
            raise Unsupported(f'assignment target {type(tgt).__name__}')

    def binop(self, op: Any, a: Any, b: Any) -> Any:
        if isinstance(op, ast.Add):
            return a + b
        if isinstance(op, ast.Mult):
            return a * b
        if isinstance(op, ast.Sub):
            return a - b
        raise Unsupported(f'operator {type(op).__name__}')

    def expr(self, e: Any, env: dict) -> Any:
        if isinstance(e, ast.Constant) and isinstance(e.value, int):
            return e.value
        if isinstance(e, ast.Name):
            if e.id in env:
                return env[e.id]
            if e.id in self.genv:
                return self.genv[e.id]
            raise Unsupported(f'name {e.id}')
        if isinstance(e, ast.BinOp):
            return self.binop(e.op, self.expr(e.left, env), self.expr(e.right, env))
        if isinstance(e, ast.Call) and isinstance(e.func, ast.Name):
            args = [self.expr(a, env) for a in e.args]
            if e.func.id == 'list' and len(args) == 1 and isinstance(args[0], list):
                return list(args[0])
            if e.func.id == 'reversed' and len(args) == 1 and isinstance(args[0], list):
                return list(reversed(args[0]))
            if e.func.id == 'pow' and len(args) == 2 and all(isinstance(a, int) for a in args):
                return pow(args[0], args[1])
            if e.func.id == 'len' and len(args) == 1 and isinstance(args[0], list):
                return len(args[0])
            if e.func.id == 'zip' and all(isinstance(a, (list, tuple)) for a in args):
                return [list(t) for t in zip(*args)]
            if e.func.id == 'enumerate' and len(args) == 1 and isinstance(args[0], list):
                return [[i, v] for i, v in enumerate(args[0])]
            raise Unsupported(f'call {e.func.id}')
        if isinstance(e, ast.Subscript):
            base = self.expr(e.value, env)
            key = self.expr(e.slice, env)
            if isinstance(base, dict):
                if isinstance(key, (int, str)):
                    return base[key]
                # symbolic key.  A table that maps consecutive code points to consecutive integers is
                # exactly a linear function on its key range (checked here on the literal itself);
                # a key outside the range raises KeyError in Python.
                items = sorted((ord(k), v) for k, v in base.items())
                lo_k, hi_k = items[0][0], items[-1][0]
                if all(isinstance(v, int) for _, v in items) and [k for k, _ in items] == list(range(lo_k, hi_k + 1)) and all(v - k == items[0][1] - lo_k for k, v in items):
                    self.flag.cond = z3.Or(self.flag.cond, key < lo_k, key > hi_k)
                    return key + (items[0][1] - lo_k)
                # otherwise: ITE table over the entries
                items = list(base.items())
                miss = z3.And([key != ord(k) for k, _ in items])
                self.flag.cond = z3.Or(self.flag.cond, miss)
                t: Any = z3.IntVal(0)
                for k, v in items:
                    t = z3.If(key == ord(k), z3.IntVal(v), t)
                return t
            if isinstance(base, (list, tuple)) and isinstance(key, int):
                return base[key]
            raise Unsupported('subscript')
        if isinstance(e, ast.Tuple):
            return [self.expr(x, env) for x in e.elts]
        raise Unsupported(f'expression {type(e).__name__} at line {getattr(e, "lineno", "?")}')


def kernel_term(word: list) -> tuple:
    """-> (z3 term of convert_to_number(word), z3 Bool 'raises KeyError')"""
    fn, env = find_kernel()
    flag = KeyErrorFlag()
    t = Interp(env, flag).run(fn, word)
    if isinstance(t, int):
        t = z3.IntVal(t)
    return t, flag.cond
