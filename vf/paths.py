"""where the repository under test lives (always /repo for the registered commands; PI2_REPO lets
development runs point the same machinery at a scratch worktree)"""
import os

REPO = os.environ.get('PI2_REPO', '/repo').rstrip('/')
