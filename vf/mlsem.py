"""mlsem -- finite-model semantics of matching-logic patterns as z3 terms.

Carrier {0..n-1}, n in {1,2,3}.  A set is a tuple of n z3 Bools.  Symbols and
the application table are free Boolean constants (an arbitrary model);
valuations are uninterpreted functions over the integers, so they can be indexed
by symbolic ids; binders extend an environment that is consulted first.
exists = n-fold union, mu = F^n(empty) (exact for monotone F on a lattice of
height n; positivity is what the checker enforces and the harness asserts)."""
from __future__ import annotations

from typing import Any

import z3

from .symx import SymInt


def _z(i: Any) -> Any:
    if isinstance(i, SymInt):
        return i.t
    if isinstance(i, int):
        return z3.IntVal(i)
    return i


class Model:
    """one symbolic model + base valuation over a carrier of n elements"""

    def __init__(self, n: int, tag: str = ''):
        self.n = n
        self.tag = tag
        self.app = [[[z3.Bool(f'app{tag}_{i}_{j}_{m}') for m in range(n)] for j in range(n)] for i in range(n)]
        self.ebase = z3.Function(f'rho_e{tag}', z3.IntSort(), z3.IntSort())
        self.sbase = [z3.Function(f'rho_s{tag}_{m}', z3.IntSort(), z3.BoolSort()) for m in range(n)]
        self.syms: dict[Any, list] = {}
        self.side: list[Any] = []  # range constraints of the base valuation at the indices used
        self._used: set[int] = set()

    def sym(self, name: Any) -> list:
        key = name if not isinstance(name, SymInt) else ('sym', name.t.get_id())
        if isinstance(name, SymInt):
            # symbolic symbol numbers: an uninterpreted function of the number
            f = [z3.Function(f'symf{self.tag}_{m}', z3.IntSort(), z3.BoolSort()) for m in range(self.n)]
            return [f[m](name.t) for m in range(self.n)]
        if key not in self.syms:
            self.syms[key] = [z3.Bool(f'sym{self.tag}_{len(self.syms)}_{m}') for m in range(self.n)]
        return self.syms[key]

    def e_lookup(self, x: Any, env: list) -> Any:
        """value (an Int term in 0..n-1) of element variable x; env = [(id, int-term)], innermost last"""
        zx = _z(x)
        t = self.ebase(zx)
        if t.get_id() not in self._used:
            self._used.add(t.get_id())
            self.side.append(z3.And(t >= 0, t < self.n))
        for k, v in env:
            t = z3.If(zx == _z(k), v, t)
        return t

    def s_lookup(self, X: Any, env: list) -> list:
        zX = _z(X)
        out = []
        for m in range(self.n):
            t = self.sbase[m](zX)
            for k, S in env:
                t = z3.If(zX == _z(k), S[m], t)
            out.append(t)
        return out

    def eval(self, a: tuple, eenv: list | None = None, senv: list | None = None) -> list:
        """oracle term (metavariable-free) -> list of n Bool terms"""
        eenv = eenv or []
        senv = senv or []
        n = self.n
        k = a[0]
        if k == 'ev':
            v = self.e_lookup(a[1], eenv)
            return [v == m for m in range(n)]
        if k == 'sv':
            return self.s_lookup(a[1], senv)
        if k == 'sym':
            return self.sym(a[1])
        if k == 'imp':
            l, r = self.eval(a[1], eenv, senv), self.eval(a[2], eenv, senv)
            return [z3.Or(z3.Not(l[m]), r[m]) for m in range(n)]
        if k == 'app':
            l, r = self.eval(a[1], eenv, senv), self.eval(a[2], eenv, senv)
            return [z3.Or([z3.And(l[i], r[j], self.app[i][j][m]) for i in range(n) for j in range(n)]) for m in range(n)]
        if k == 'ex':
            parts = [self.eval(a[2], eenv + [(a[1], z3.IntVal(v))], senv) for v in range(n)]
            return [z3.Or([p[m] for p in parts]) for m in range(n)]
        if k == 'mu':
            S = [z3.BoolVal(False)] * n
            for _ in range(n):
                S = self.eval(a[2], eenv, senv + [(a[1], S)])
            return S
        raise TypeError(f'mlsem: cannot evaluate a meta-pattern node {k}')


def full(bits: list) -> Any:
    return z3.And(bits)


def var_slots(a: tuple, acc: tuple | None = None) -> tuple:
    """(element-variable id terms, set-variable id terms) occurring in a, in order of first occurrence"""
    es: list = []
    ss: list = []

    def walk(t: tuple) -> None:
        k = t[0]
        if k == 'ev':
            es.append(t[1])
        elif k == 'sv':
            ss.append(t[1])
        elif k in ('imp', 'app'):
            walk(t[1])
            walk(t[2])
        elif k == 'ex':
            es.append(t[1])
            walk(t[2])
        elif k == 'mu':
            ss.append(t[1])
            walk(t[2])

    walk(a)
    return es, ss


class Obligation:
    """decides   forall ids (under the path condition), models with carrier <= nmax, valuations:
         (premises valid in the model)  =>  conclusion holds at the valuation
    by counterexample-guided instantiation of the universally quantified premise valuations."""

    def __init__(self, solver: Any, premises: list[tuple], conclusion: tuple, nmax: int = 3, extra_instances: Any = None):
        self.solver = solver
        self.premises = premises
        self.conclusion = conclusion
        self.nmax = nmax
        self.queries = 0
        self.rounds = 0
        self.extra_instances = extra_instances

    def _check(self, *assumptions: Any) -> Any:
        self.queries += 1
        r = self.solver.check(*assumptions)
        if r == z3.unknown:
            raise RuntimeError('z3 unknown in mlsem obligation: ' + self.solver.reason_unknown())
        return r

    def decide(self, id_vars: list) -> dict | None:
        """None: holds for every carrier size up to nmax.  Otherwise a counterexample dict."""
        for n in range(1, self.nmax + 1):
            cx = self._decide_n(n, id_vars)
            if cx is not None:
                return cx
        return None

    def _decide_n(self, n: int, id_vars: list) -> dict | None:
        M = Model(n, tag=f'_{n}')
        s = self.solver
        concl = M.eval(self.conclusion)
        slots = [var_slots(p) for p in self.premises]
        # instances: per premise a list of (eenv, senv) overrides with concrete values
        instances: list[list] = [[([], [])] for _ in self.premises]
        if self.extra_instances is not None:
            for pi, extra in enumerate(self.extra_instances(n)):
                instances[pi].extend(extra)
        while True:
            self.rounds += 1
            s.push()
            try:
                s.add(z3.Not(full(concl)))
                for pi, p in enumerate(self.premises):
                    for eenv, senv in instances[pi]:
                        s.add(full(M.eval(p, eenv, senv)))
                s.add(*M.side)
                r = self._check()
                if r == z3.unsat:
                    return None
                mdl = s.model()
            finally:
                s.pop()
            # candidate: ids and model fixed; is some premise invalid at some valuation?
            fix = []
            idvals = {}
            for name, v in id_vars:
                val = mdl.eval(v, model_completion=True)
                idvals[name] = val.as_long()
                fix.append(v == val)
            for i in range(n):
                for j in range(n):
                    for m in range(n):
                        fix.append(M.app[i][j][m] == mdl.eval(M.app[i][j][m], model_completion=True))
            for bits in M.syms.values():
                for b in bits:
                    fix.append(b == mdl.eval(b, model_completion=True))
            refuted = False
            for pi, p in enumerate(self.premises):
                es, ss = slots[pi]
                M2 = Model(n, tag=f'_{n}q')
                # share the model (app table, symbols) with M, fresh valuation
                M2.app = M.app
                M2.syms = M.syms
                s.push()
                try:
                    s.add(*fix)
                    s.add(z3.Not(full(M2.eval(p))))
                    s.add(*M2.side)
                    r = self._check()
                    if r == z3.sat:
                        m2 = s.model()
                        eenv = [(x, z3.IntVal(m2.eval(M2.e_lookup(x, []), model_completion=True).as_long())) for x in es]
                        senv = []
                        for X in ss:
                            bits = M2.s_lookup(X, [])
                            senv.append((X, [z3.BoolVal(bool(z3.is_true(m2.eval(b, model_completion=True)))) for b in bits]))
                        instances[pi].append((eenv, senv))
                        refuted = True
                finally:
                    s.pop()
                if refuted:
                    break
            if not refuted:
                # the premises are valid in this model, the conclusion is not
                app = [[[bool(z3.is_true(mdl.eval(M.app[i][j][m], model_completion=True))) for m in range(n)] for j in range(n)] for i in range(n)]
                es, ss = var_slots(self.conclusion)
                rho_e = {str(x): mdl.eval(M.e_lookup(x, []), model_completion=True).as_long() for x in es}
                rho_s = {str(X): [bool(z3.is_true(mdl.eval(b, model_completion=True))) for b in M.s_lookup(X, [])] for X in ss}
                value = [bool(z3.is_true(mdl.eval(b, model_completion=True))) for b in concl]
                return {'carrier': n, 'ids': idvals, 'app_table': app, 'rho_e': rho_e, 'rho_s': rho_s, 'value_of_conclusion': value}
            if self.rounds > 400:
                raise RuntimeError('mlsem: instantiation loop did not converge')


def valid_concrete(a: tuple, nmax: int = 3) -> dict | None:
    """stand-alone validity check of a concrete pattern; returns a countermodel or None"""
    s = z3.Solver()
    ob = Obligation(s, [], a, nmax)
    return ob.decide([])
