"""rs2py -- source-level transpiler for the subset of Rust that rust/src/lib.rs
(everything outside #[cfg(test)]) is written in.  Emits Python that runs on
plain ints (validation against the real binary) and on symx proxies.

Anything outside the subset raises Unsupported naming the construct and line;
checks turn that into exit 2 (inconclusive)."""
from __future__ import annotations

import re
from dataclasses import dataclass, field
from typing import Any


class Unsupported(Exception):
    pass


# ---------------------------------------------------------------------------
# lexer

TOK = re.compile(
    r"""
    (?P<ws>\s+)
  | (?P<lc>//[^\n]*)
  | (?P<bc>/\*.*?\*/)
  | (?P<str>b?"(?:\\.|[^"\\])*")
  | (?P<life>'[A-Za-z_][A-Za-z0-9_]*(?!'))
  | (?P<chr>'(?:\\.|[^'\\])')
  | (?P<num>\d[\d_]*(?:u8|usize|u32|i32)?)
  | (?P<id>[A-Za-z_][A-Za-z0-9_]*)
  | (?P<op>::|->|=>|==|!=|<=|>=|&&|\|\||\.\.|[-+*/%!&|<>=.,;:#\[\](){}?@])
""",
    re.X | re.S,
)


@dataclass
class Tok:
    k: str
    v: str
    line: int


def lex(src: str) -> list[Tok]:
    out: list[Tok] = []
    i = 0
    line = 1
    while i < len(src):
        m = TOK.match(src, i)
        if not m:
            raise Unsupported(f'line {line}: cannot tokenise {src[i:i+20]!r}')
        k = m.lastgroup
        v = m.group()
        if k not in ('ws', 'lc', 'bc'):
            out.append(Tok(k, v, line))
        line += v.count('\n')
        i = m.end()
    out.append(Tok('eof', '', line))
    return out


# ---------------------------------------------------------------------------
# AST (plain tuples: (kind, ..., line))


class Parser:
    def __init__(self, toks: list[Tok]):
        self.t = toks
        self.i = 0

    # -- helpers
    def peek(self, o: int = 0) -> Tok:
        return self.t[min(self.i + o, len(self.t) - 1)]

    def at(self, v: str, o: int = 0) -> bool:
        p = self.peek(o)
        return p.v == v and p.k in ('op', 'id')

    def eat(self, v: str) -> Tok:
        p = self.peek()
        if p.v != v:
            raise Unsupported(f'line {p.line}: expected {v!r}, found {p.v!r}')
        self.i += 1
        return p

    def opt(self, v: str) -> bool:
        if self.at(v):
            self.i += 1
            return True
        return False

    def ident(self) -> str:
        p = self.peek()
        if p.k != 'id':
            raise Unsupported(f'line {p.line}: expected identifier, found {p.v!r}')
        self.i += 1
        return p.v

    def skip_balanced(self, open_: str, close: str) -> None:
        depth = 0
        while True:
            p = self.peek()
            if p.k == 'eof':
                raise Unsupported('unbalanced brackets')
            self.i += 1
            if p.k == 'op' and p.v == open_:
                depth += 1
            elif p.k == 'op' and p.v == close:
                depth -= 1
                if depth == 0:
                    return

    def attrs(self) -> list[str]:
        out = []
        while self.at('#'):
            start = self.i
            self.i += 1
            self.opt('!')
            self.skip_balanced('[', ']')
            out.append(''.join(t.v for t in self.t[start : self.i]))
        return out

    # -- types (parsed only as far as needed: '&mut', base name, generic args)
    def type_(self) -> tuple:
        refmut = False
        ref = False
        while self.at('&') or self.at('&&'):
            ref = True
            self.i += 1
            if self.peek().k == 'life':
                self.i += 1
            if self.opt('mut'):
                refmut = True
        if self.at('['):
            self.eat('[')
            inner = self.type_()
            if self.opt(';'):
                self.expr()
            self.eat(']')
            return ('ty', 'slice', [inner], ref, refmut)
        if self.at('('):
            self.eat('(')
            items = []
            while not self.at(')'):
                items.append(self.type_())
                self.opt(',')
            self.eat(')')
            return ('ty', 'tuple', items, ref, refmut)
        name = self.ident()
        while self.opt('::'):
            name = self.ident()
        args: list = []
        if self.at('<'):
            self.eat('<')
            while not self.at('>'):
                if self.peek().k == 'life':
                    self.i += 1
                else:
                    args.append(self.type_())
                self.opt(',')
            self.eat('>')
        return ('ty', name, args, ref, refmut)

    def generics(self) -> None:
        if self.at('<'):
            self.skip_balanced('<', '>')

    # -- items
    def items(self, until: str | None = None) -> list:
        out = []
        while self.peek().k != 'eof' and not (until and self.at(until)):
            at = self.attrs()
            skip = any('cfg(test)' in a for a in at)
            it = self.item()
            if it is not None and not skip:
                out.append(it)
        return out

    def item(self) -> Any:
        p = self.peek()
        self.opt('pub')
        if self.at('extern') or self.at('use'):
            while not self.at(';'):
                self.i += 1
            self.eat(';')
            return None
        if self.at('type'):
            self.eat('type')
            name = self.ident()
            self.generics()
            self.eat('=')
            ty = self.type_()
            self.eat(';')
            return ('alias', name, ty, p.line)
        if self.at('mod'):
            self.eat('mod')
            self.ident()
            if self.at('{'):
                self.skip_balanced('{', '}')
            else:
                self.eat(';')
            return None
        if self.at('enum'):
            return self.enum()
        if self.at('impl'):
            self.eat('impl')
            self.generics()
            name = self.ident()
            self.generics()
            self.eat('{')
            fns = self.items(until='}')
            self.eat('}')
            return ('impl', name, fns, p.line)
        if self.at('fn'):
            return self.fn()
        raise Unsupported(f'line {p.line}: unsupported item starting with {p.v!r}')

    def enum(self) -> Any:
        line = self.eat('enum').line
        name = self.ident()
        self.eat('{')
        variants = []
        while not self.at('}'):
            self.attrs()
            vn = self.ident()
            if self.at('('):
                self.eat('(')
                n = 0
                while not self.at(')'):
                    self.type_()
                    n += 1
                    self.opt(',')
                self.eat(')')
                variants.append((vn, 'tuple', n, None))
            elif self.at('{'):
                self.eat('{')
                fs = []
                while not self.at('}'):
                    fs.append(self.ident())
                    self.eat(':')
                    self.type_()
                    self.opt(',')
                self.eat('}')
                variants.append((vn, 'struct', fs, None))
            elif self.at('='):
                self.eat('=')
                variants.append((vn, 'unit', None, self.expr()))
            else:
                variants.append((vn, 'unit', None, None))
            self.opt(',')
        self.eat('}')
        return ('enum', name, variants, line)

    def fn(self) -> Any:
        line = self.eat('fn').line
        name = self.ident()
        self.generics()
        self.eat('(')
        params = []
        while not self.at(')'):
            if self.at('&') and (self.at('self', 1) or (self.at('mut', 1) and self.at('self', 2))):
                self.eat('&')
                self.opt('mut')
                self.eat('self')
                params.append(('self', None))
            elif self.at('self'):
                self.eat('self')
                params.append(('self', None))
            else:
                self.opt('mut')
                pn = self.ident()
                self.eat(':')
                params.append((pn, self.type_()))
            self.opt(',')
        self.eat(')')
        ret = None
        if self.opt('->'):
            ret = self.type_()
        body = self.block()
        return ('fn', name, params, ret, body, line)

    # -- statements / blocks
    def block(self) -> Any:
        line = self.eat('{').line
        stmts = []
        tail = None
        while not self.at('}'):
            if self.at(';'):
                self.i += 1
                continue
            if self.at('let'):
                l = self.eat('let').line
                pat = self.pattern()
                ty = None
                if self.opt(':'):
                    ty = self.type_()
                init = None
                if self.opt('='):
                    init = self.expr()
                self.eat(';')
                stmts.append(('let', pat, ty, init, l))
                continue
            e = self.expr(stmt=True)
            if self.opt(';'):
                stmts.append(('expr', e, e[-1]))
            elif self.at('}'):
                tail = e
            elif e[0] in ('if', 'iflet', 'match', 'while', 'whilelet', 'for', 'block'):
                stmts.append(('expr', e, e[-1]))
            else:
                raise Unsupported(f'line {self.peek().line}: expected ; or }} after expression')
        self.eat('}')
        return ('block', stmts, tail, line)

    # -- patterns
    def pattern(self) -> Any:
        p = self.pattern1()
        if self.at('|') :
            alts = [p]
            while self.opt('|'):
                alts.append(self.pattern1())
            return ('p_or', alts, p[-1])
        return p

    def pattern1(self) -> Any:
        t = self.peek()
        if self.opt('&'):
            self.opt('mut')
            return self.pattern1()
        if self.opt('mut'):
            return ('p_bind', self.ident(), t.line)
        if t.k == 'num':
            self.i += 1
            return ('p_lit', _num(t.v), t.line)
        if self.at('_'):
            self.i += 1
            return ('p_wild', t.line)
        if self.at('..'):
            self.i += 1
            return ('p_rest', t.line)
        if t.k == 'id':
            path = [self.ident()]
            while self.opt('::'):
                path.append(self.ident())
            if self.at('('):
                self.eat('(')
                subs = []
                while not self.at(')'):
                    subs.append(self.pattern())
                    self.opt(',')
                self.eat(')')
                return ('p_tuple', path, subs, t.line)
            if self.at('{'):
                self.eat('{')
                fs = []
                while not self.at('}'):
                    if self.opt('..'):
                        self.opt(',')
                        continue
                    self.opt('mut')
                    fn_ = self.ident()
                    sub = None
                    if self.opt(':'):
                        sub = self.pattern()
                    fs.append((fn_, sub))
                    self.opt(',')
                self.eat('}')
                return ('p_struct', path, fs, t.line)
            if len(path) == 1 and path[0] not in ('None',):
                return ('p_bind', path[0], t.line)
            return ('p_path', path, t.line)
        raise Unsupported(f'line {t.line}: unsupported pattern at {t.v!r}')

    # -- expressions (Pratt)
    BIN = {
        '||': 1, '&&': 2,
        '==': 3, '!=': 3, '<': 3, '>': 3, '<=': 3, '>=': 3,
        '|': 4, '&': 5,
        '+': 6, '-': 6,
        '*': 7, '/': 7, '%': 7,
    }

    def expr(self, stmt: bool = False, nostruct: bool = False) -> Any:
        e = self.expr_bp(0, nostruct, stmt)
        if self.at('=') and not self.at('==') and not self.at('=>'):
            line = self.eat('=').line
            rhs = self.expr(nostruct=nostruct)
            return ('assign', e, rhs, line)
        return e

    def expr_bp(self, minbp: int, nostruct: bool, stmt: bool = False) -> Any:
        lhs = self.unary(nostruct, stmt)
        if stmt and lhs[0] in ('if', 'iflet', 'match', 'while', 'whilelet', 'for', 'block'):
            # block-like expression statement ends here unless followed by a method call
            if not self.at('.'):
                return lhs
        while True:
            t = self.peek()
            if t.k == 'id' and t.v == 'as':
                self.i += 1
                self.type_()
                continue
            if t.k == 'op' and t.v == '..' and minbp == 0:
                self.i += 1
                rhs = self.expr_bp(1, nostruct)
                lhs = ('range', lhs, rhs, t.line)
                continue
            if t.k == 'op' and t.v in self.BIN:
                bp = self.BIN[t.v]
                if bp <= minbp:
                    break
                self.i += 1
                rhs = self.expr_bp(bp, nostruct)
                lhs = ('bin', t.v, lhs, rhs, t.line)
                continue
            break
        return lhs

    def unary(self, nostruct: bool, stmt: bool = False) -> Any:
        t = self.peek()
        if t.k == 'op' and t.v in ('!', '-', '*'):
            self.i += 1
            e = self.unary(nostruct)
            e = self.cast_suffix(e) if False else e
            return ('un', t.v, e, t.line)
        if t.k == 'op' and t.v in ('&', '&&'):
            self.i += 1
            mut = self.opt('mut')
            e = self.unary(nostruct)
            return ('ref', mut, e, t.line)
        return self.postfix(self.primary(nostruct, stmt), nostruct)

    def cast_suffix(self, e: Any) -> Any:
        return e

    def postfix(self, e: Any, nostruct: bool) -> Any:
        while True:
            t = self.peek()
            if self.at('?'):
                self.i += 1
                e = ('try', e, t.line)
            elif self.at('.'):
                self.i += 1
                name = self.peek()
                if name.k == 'num':
                    self.i += 1
                    e = ('field', e, name.v, t.line)
                    continue
                m = self.ident()
                if self.at('('):
                    args = self.args()
                    e = ('mcall', e, m, args, t.line)
                else:
                    e = ('field', e, m, t.line)
            elif self.at('('):
                args = self.args()
                e = ('call', e, args, t.line)
            elif self.at('['):
                self.eat('[')
                idx = self.expr()
                self.eat(']')
                e = ('index', e, idx, t.line)
            else:
                return e

    def args(self) -> list:
        self.eat('(')
        out = []
        while not self.at(')'):
            out.append(self.expr())
            self.opt(',')
        self.eat(')')
        return out

    def primary(self, nostruct: bool, stmt: bool = False) -> Any:
        t = self.peek()
        if t.k == 'num':
            self.i += 1
            return ('num', _num(t.v), t.line)
        if t.k == 'str':
            self.i += 1
            return ('str', t.v, t.line)
        if self.at('('):
            self.eat('(')
            if self.at(')'):
                self.eat(')')
                return ('unit', t.line)
            e = self.expr()
            self.eat(')')
            return ('paren', e, t.line)
        if self.at('{'):
            return self.block()
        if self.at('|') or self.at('||'):
            params = []
            if self.at('||'):
                self.i += 1
            else:
                self.eat('|')
                while not self.at('|'):
                    params.append(self.pattern1())
                    if self.opt(':'):
                        self.type_()
                    self.opt(',')
                self.eat('|')
            body = self.expr()
            return ('closure', params, body, t.line)
        if t.k == 'id':
            v = t.v
            if v == 'if':
                return self.if_()
            if v == 'match':
                self.i += 1
                scrut = self.expr(nostruct=True)
                self.eat('{')
                arms = []
                while not self.at('}'):
                    self.attrs()
                    pat = self.pattern()
                    guard = None
                    if self.opt('if'):
                        guard = self.expr(nostruct=True)
                    self.eat('=>')
                    body = self.expr(stmt=True)
                    self.opt(',')
                    arms.append((pat, guard, body))
                self.eat('}')
                return ('match', scrut, arms, t.line)
            if v == 'while':
                self.i += 1
                if self.opt('let'):
                    pat = self.pattern()
                    self.eat('=')
                    e = self.expr(nostruct=True)
                    return ('whilelet', pat, e, self.block(), t.line)
                c = self.expr(nostruct=True)
                return ('while', c, self.block(), t.line)
            if v == 'for':
                self.i += 1
                pat = self.pattern()
                self.eat('in')
                e = self.expr(nostruct=True)
                return ('for', pat, e, self.block(), t.line)
            if v == 'return':
                self.i += 1
                if self.at(';') or self.at('}') or self.at(','):
                    return ('return', None, t.line)
                return ('return', self.expr(), t.line)
            if v in ('true', 'false'):
                self.i += 1
                return ('bool', v == 'true', t.line)
            if v in ('loop', 'break', 'continue', 'unsafe', 'move', 'struct', 'trait'):
                raise Unsupported(f'line {t.line}: unsupported construct {v!r}')
            # path
            path = [self.ident()]
            while self.at('::'):
                self.i += 1
                if self.at('<'):
                    self.skip_balanced('<', '>')
                    continue
                path.append(self.ident())
            if self.at('!'):
                # macro
                self.i += 1
                opener = self.peek().v
                close = {'(': ')', '[': ']', '{': '}'}[opener]
                self.eat(opener)
                name = path[-1]
                if name == 'matches':
                    e = self.expr()
                    self.eat(',')
                    pat = self.pattern()
                    self.opt(',')
                    self.eat(close)
                    return ('matches', e, pat, t.line)
                args = []
                while not self.at(close):
                    args.append(self.expr())
                    if not self.opt(','):
                        if self.opt(';'):
                            raise Unsupported(f'line {t.line}: vec![x; n] not supported')
                self.eat(close)
                return ('macro', name, args, t.line)
            if self.at('{') and not nostruct and (len(path) > 1 or path[0][0].isupper()):
                self.eat('{')
                fs = []
                while not self.at('}'):
                    fn_ = self.ident()
                    val = None
                    if self.opt(':'):
                        val = self.expr()
                    fs.append((fn_, val))
                    self.opt(',')
                self.eat('}')
                return ('structlit', path, fs, t.line)
            return ('path', path, t.line)
        raise Unsupported(f'line {t.line}: unsupported expression at {t.v!r}')

    def if_(self) -> Any:
        line = self.eat('if').line
        if self.opt('let'):
            pat = self.pattern()
            self.eat('=')
            e = self.expr(nostruct=True)
            then = self.block()
            els = None
            if self.opt('else'):
                els = self.if_() if self.at('if') else self.block()
            return ('iflet', pat, e, then, els, line)
        c = self.expr(nostruct=True)
        then = self.block()
        els = None
        if self.opt('else'):
            els = self.if_() if self.at('if') else self.block()
        return ('if', c, then, els, line)


def _num(v: str) -> int:
    v = v.replace('_', '')
    for suf in ('usize', 'u8', 'u32', 'i32'):
        if v.endswith(suf):
            v = v[: -len(suf)]
    return int(v)


# ---------------------------------------------------------------------------
# emitter

BUILTIN_METHODS = {
    'iter', 'into_iter', 'contains', 'push', 'pop', 'last', 'clear', 'len', 'is_empty', 'next', 'expect', 'unwrap',
    'is_none', 'is_some', 'clone', 'as_ref', 'position', 'find', 'any', 'take', 'for_each',
    'by_ref', 'copied', 'cloned', 'collect', 'all', 'is_some_and', 'to_vec',
    'unwrap_or_else', 'unwrap_or', 'map_or', 'and_then', 'or_else', 'get', 'first', 'rev', 'enumerate', 'zip', 'skip', 'count', 'extend',
    'truncate', 'is_some_or', 'is_none_or', 'ok_or', 'insert', 'remove', 'swap', 'starts_with', 'ends_with', 'min', 'max',
}

PY_KEYWORDS = {'from', 'not', 'in', 'is', 'lambda', 'def', 'class', 'pass', 'None', 'True', 'False', 'and', 'or', 'global', 'with', 'as', 'del', 'try', 'except', 'raise', 'yield', 'assert', 'import', 'print', 'id', 'len', 'iter', 'next', 'list', 'vars', 'type', 'min', 'max', 'sum', 'range'}


def pyname(n: str) -> str:
    return n + '_' if n in PY_KEYWORDS else n


class Emitter:
    def __init__(self, items: list):
        self.items = items
        self.enums: dict[str, dict] = {}
        self.fns: dict[str, Any] = {}
        self.methods: dict[tuple, Any] = {}
        self.aliases: dict[str, Any] = {}
        self.out: list[str] = []
        self.tmp = 0
        self.cur_ret_option = False
        self.ref_params: set[str] = set()
        for it in items:
            if it[0] == 'enum':
                self.enums[it[1]] = {v[0]: v for v in it[2]}
            elif it[0] == 'fn':
                self.fns[it[1]] = it
            elif it[0] == 'impl':
                for f in it[2]:
                    self.methods[(it[1], f[1])] = f
            elif it[0] == 'alias':
                self.aliases[it[1]] = it[2]

    def fresh(self, p: str = '_t') -> str:
        self.tmp += 1
        return f'{p}{self.tmp}'

    # -- types
    def is_scalar_refmut(self, ty: Any) -> bool:
        """&mut T where T is not a Vec/iterator (those are shared mutable objects in the emitted code)"""
        if ty is None or not ty[4]:
            return False
        return not self.is_container(ty)

    def is_container(self, ty: Any) -> bool:
        name = ty[1]
        seen = set()
        while name in self.aliases and name not in seen:
            seen.add(name)
            name = self.aliases[name][1]
        return name in ('Vec', 'slice', 'Iter', 'InstrIterator')

    # -- module
    def module(self) -> str:
        w = self.out.append
        w('# generated by vf/rs2py.py from rust/src/lib.rs -- do not edit')
        w('from vf.rsrt import *')
        w('')
        for it in self.items:
            if it[0] == 'enum':
                self.emit_enum(it)
        for it in self.items:
            if it[0] == 'fn':
                self.emit_fn(it, None)
            elif it[0] == 'impl':
                for f in it[2]:
                    self.emit_fn(f, it[1])
        return '\n'.join(self.out) + '\n'

    def emit_enum(self, it: Any) -> None:
        w = self.out.append
        name, variants = it[1], it[2]
        data = any(v[1] != 'unit' for v in variants)
        if not data:
            nxt = 0
            w(f'class {name}:')
            w('    pass')
            for vn, _, _, disc in variants:
                if disc is not None:
                    nxt = self.const_eval(disc)
                w(f'{name}__{vn} = {nxt}')
                nxt += 1
            w('')
            return
        w(f'class {name}(RsEnum):')
        w('    pass')
        for vn, kind, payload, _ in variants:
            if kind == 'tuple':
                fields = [f'f_{i}' for i in range(payload)]
            elif kind == 'struct':
                fields = [f'f_{f}' for f in payload]
            else:
                fields = []
            w(f'class {name}__{vn}({name}):')
            w(f'    __slots__ = {tuple(fields)!r}')
            w(f'    _fields = {tuple(fields)!r}')
            w(f'    _name = {name + "::" + vn!r}')
            args = ', '.join(fields)
            w(f'    def __init__(self{", " if args else ""}{args}):')
            if fields:
                for f in fields:
                    w(f'        self.{f} = {f}')
            else:
                w('        pass')
        w('')

    def const_eval(self, e: Any) -> int:
        k = e[0]
        if k == 'num':
            return e[1]
        if k == 'paren':
            return self.const_eval(e[1])
        if k == 'bin' and e[1] in '+-*':
            a, b = self.const_eval(e[2]), self.const_eval(e[3])
            return a + b if e[1] == '+' else a - b if e[1] == '-' else a * b
        raise Unsupported(f'line {e[-1]}: non-constant discriminant')

    def emit_fn(self, f: Any, owner: str | None) -> None:
        _, name, params, ret, body, line = f
        self.cur_ret_option = bool(ret and ret[1] == 'Option')
        self.ref_params = {pn for pn, ty in params if ty is not None and self.is_scalar_refmut(ty)}
        pnames = [pyname(pn) for pn, _ in params]
        fname = f'{owner}__{name}' if owner else pyname(name)
        self.out.append(f'def {fname}({", ".join(pnames)}):  # line {line}')
        self.ind = 1
        n0 = len(self.out)
        self.emit_block(body, ('return',))
        if len(self.out) == n0:
            self.w('pass')
        self.out.append('')
        if owner and params and params[0][0] == 'self':
            self.out.append(f'{owner}.{pyname(name)} = {fname}')
        elif owner:
            self.out.append(f'{owner}.{pyname(name)} = staticmethod({fname})')
        self.out.append('')

    def w(self, s: str) -> None:
        self.out.append('    ' * self.ind + s)

    # -- sinks: ('return',) ('assign', var) ('discard',)
    def sink(self, sink: tuple, val: str | None) -> None:
        if sink[0] == 'return':
            self.w(f'return {val if val is not None else "None"}')
        elif sink[0] == 'assign':
            self.w(f'{sink[1]} = {val if val is not None else "None"}')
        elif val is not None and val != 'None':
            self.w(val)

    def emit_block(self, b: Any, sink: tuple) -> None:
        _, stmts, tail, line = b
        n0 = len(self.out)
        for s in stmts:
            if s[0] == 'let':
                _, pat, ty, init, l = s
                if init is None:
                    self.w(f'{self.bind_name(pat)} = None')
                    continue
                if pat[0] == 'p_bind':
                    self.emit_into(init, ('assign', pyname(pat[1])))
                elif pat[0] == 'p_wild':
                    self.emit_into(init, ('discard',))
                else:
                    raise Unsupported(f'line {l}: destructuring let')
            else:
                self.emit_into(s[1], ('discard',))
        if tail is not None:
            self.emit_into(tail, sink)
        elif sink[0] == 'assign':
            self.w(f'{sink[1]} = None')
        if len(self.out) == n0:
            self.w('pass')

    def bind_name(self, pat: Any) -> str:
        if pat[0] == 'p_bind':
            return pyname(pat[1])
        raise Unsupported(f'line {pat[-1]}: unsupported let pattern')

    def emit_into(self, e: Any, sink: tuple) -> None:
        k = e[0]
        if k == 'block':
            self.emit_block(e, sink)
        elif k == 'if':
            c = self.expr(e[1])
            self.w(f'if {c}:')
            self.ind += 1
            self.emit_block(e[2], sink)
            self.ind -= 1
            if e[3] is not None:
                self.w('else:')
                self.ind += 1
                self.emit_into(e[3], sink)
                self.ind -= 1
            elif sink[0] == 'assign':
                self.w('else:')
                self.w(f'    {sink[1]} = None')
        elif k == 'iflet':
            _, pat, scrut, then, els, line = e
            s = self.fresh('_s')
            self.w(f'{s} = {self.expr(scrut)}')
            cond, binds = self.pat_test(pat, s)
            self.w(f'if {cond}:')
            self.ind += 1
            for b in binds:
                self.w(b)
            self.emit_block(then, sink)
            self.ind -= 1
            if els is not None:
                self.w('else:')
                self.ind += 1
                self.emit_into(els, sink)
                self.ind -= 1
            elif sink[0] == 'assign':
                self.w('else:')
                self.w(f'    {sink[1]} = None')
        elif k == 'match':
            self.emit_match(e, sink)
        elif k == 'whilelet':
            _, pat, scrut, body, line = e
            s = self.fresh('_s')
            self.w('while True:')
            self.ind += 1
            self.w(f'{s} = {self.expr(scrut)}')
            cond, binds = self.pat_test(pat, s)
            self.w(f'if not ({cond}):')
            self.w('    break')
            for b in binds:
                self.w(b)
            self.emit_block(body, ('discard',))
            self.ind -= 1
        elif k == 'while':
            self.w(f'while {self.expr(e[1])}:')
            self.ind += 1
            self.emit_block(e[2], ('discard',))
            self.ind -= 1
        elif k == 'for':
            _, pat, it, body, line = e
            var = '_' if pat[0] == 'p_wild' else self.bind_name(pat)
            if it[0] == 'range':
                self.w(f'for {var} in rs_range({self.expr(it[1])}, {self.expr(it[2])}):')
            else:
                self.w(f'for {var} in rs_iterate({self.expr(it)}):')
            self.ind += 1
            self.emit_block(body, ('discard',))
            self.ind -= 1
        elif k == 'return':
            if e[1] is None:
                self.w('return None')
            else:
                self.emit_into(e[1], ('return',))
        elif k == 'assign':
            lhs, rhs = e[1], e[2]
            if lhs[0] == 'un' and lhs[1] == '*' and lhs[2][0] == 'path' and lhs[2][1][0] in self.ref_params:
                self.w(f'{pyname(lhs[2][1][0])}.v = {self.expr(rhs)}')
            elif lhs[0] == 'path' and len(lhs[1]) == 1:
                if lhs[1][0] == '_':
                    self.w(self.expr(rhs))
                else:
                    self.emit_into(rhs, ('assign', pyname(lhs[1][0])))
            else:
                raise Unsupported(f'line {e[-1]}: unsupported assignment target')
            if sink[0] == 'return':
                self.w('return None')
        elif k == 'macro' and e[1] in ('debug_assert', 'debug_assert_eq', 'debug_assert_ne'):
            # release semantics (the binary the encoding is validated against is built with -O, as a deployed checker is):
            # a debug assertion is not a check
            self.w('pass')
        elif k == 'macro' and e[1] in ('panic', 'unimplemented', 'assert', 'assert_eq', 'assert_ne', 'unreachable', 'todo'):
            self.emit_panic_macro(e)
        elif k == 'call' and self.refmut_call(e):
            self.emit_refmut_call(e, sink)
        else:
            self.sink(sink, self.expr(e))

    def emit_panic_macro(self, e: Any) -> None:
        name, args, line = e[1], e[2], e[-1]
        msg = ''
        for a in args:
            if a[0] == 'str':
                msg = a[1]
                break
        site = f'L{line}:{name}'
        if name == 'assert':
            self.w(f'if not ({self.expr(args[0])}):')
            self.w(f'    raise Panic({site!r}, {msg})' if msg else f'    raise Panic({site!r})')
        elif name == 'assert_eq':
            self.w(f'if not ({self.expr(args[0])} == {self.expr(args[1])}):')
            self.w(f'    raise Panic({site!r})')
        elif name == 'assert_ne':
            self.w(f'if ({self.expr(args[0])} == {self.expr(args[1])}):')
            self.w(f'    raise Panic({site!r})')
        else:
            self.w(f'raise Panic({site!r}, {msg})' if msg else f'raise Panic({site!r})')

    def refmut_call(self, e: Any) -> bool:
        callee = e[1]
        if callee[0] != 'path' or len(callee[1]) != 1 or callee[1][0] not in self.fns:
            return False
        params = self.fns[callee[1][0]][2]
        for (pn, ty), a in zip(params, e[2]):
            if ty is not None and self.is_scalar_refmut(ty) and a[0] == 'ref' and a[1]:
                return True
        return False

    def emit_refmut_call(self, e: Any, sink: tuple) -> None:
        callee = e[1][1][0]
        params = self.fns[callee][2]
        args = []
        post = []
        for (pn, ty), a in zip(params, e[2]):
            if ty is not None and self.is_scalar_refmut(ty) and a[0] == 'ref' and a[1]:
                if a[2][0] != 'path' or len(a[2][1]) != 1:
                    raise Unsupported(f'line {e[-1]}: &mut of a non-variable')
                v = pyname(a[2][1][0])
                r = self.fresh('_r')
                self.w(f'{r} = Ref({v})')
                args.append(r)
                post.append(f'{v} = {r}.v')
            else:
                args.append(self.expr(a))
        t = self.fresh()
        self.w(f'{t} = {pyname(callee)}({", ".join(args)})')
        for p in post:
            self.w(p)
        self.sink(sink, t if sink[0] != 'discard' else None)

    # -- match
    def emit_match(self, e: Any, sink: tuple) -> None:
        _, scrut, arms, line = e
        s = self.fresh('_s')
        self.w(f'{s} = {self.expr(scrut)}')
        simple = all(g is None for _, g, _ in arms)
        if simple:
            first = True
            for pat, _, body in arms:
                cond, binds = self.pat_test(pat, s)
                self.w(f'{"if" if first else "elif"} {cond}:')
                first = False
                self.ind += 1
                for b in binds:
                    self.w(b)
                n0 = len(self.out)
                self.emit_into(body, sink)
                if len(self.out) == n0:
                    self.w('pass')
                self.ind -= 1
            self.w('else:')
            self.w(f"    raise Panic('L{line}:match-fallthrough')")
            return
        m = self.fresh('_m')
        self.w(f'{m} = False')
        for pat, guard, body in arms:
            cond, binds = self.pat_test(pat, s)
            self.w(f'if not {m} and {cond}:')
            self.ind += 1
            for b in binds:
                self.w(b)
            if guard is not None:
                self.w(f'if {self.expr(guard)}:')
                self.ind += 1
            self.w(f'{m} = True')
            self.emit_into(body, sink)
            if guard is not None:
                self.ind -= 1
            self.ind -= 1
        self.w(f'if not {m}:')
        self.w(f"    raise Panic('L{line}:match-fallthrough')")

    def variant(self, path: list, line: int) -> tuple[str, Any]:
        if len(path) == 2 and path[0] in self.enums and path[1] in self.enums[path[0]]:
            return f'{path[0]}__{path[1]}', self.enums[path[0]][path[1]]
        raise Unsupported(f'line {line}: unknown enum path {"::".join(path)}')

    def pat_test(self, pat: Any, s: str) -> tuple[str, list[str]]:
        k = pat[0]
        if k == 'p_wild' or k == 'p_rest':
            return 'True', []
        if k == 'p_bind':
            return 'True', [f'{pyname(pat[1])} = {s}']
        if k == 'p_lit':
            return f'({s} == {pat[1]})', []
        if k == 'p_or':
            conds = []
            alts = []
            for a in pat[1]:
                c, b = self.pat_test(a, s)
                conds.append(c)
                alts.append(dict(x.split(' = ', 1) for x in b))
            names = set(alts[0])
            if any(set(a) != names for a in alts):
                raise Unsupported(f'line {pat[-1]}: or-pattern alternatives bind different names')
            binds = []
            for nm in sorted(names):
                expr = alts[-1][nm]
                for c, a in reversed(list(zip(conds[:-1], alts[:-1]))):
                    expr = f'({a[nm]} if {c} else {expr})'
                binds.append(f'{nm} = {expr}')
            return '(' + ' or '.join(f'({c})' for c in conds) + ')', binds
        if k == 'p_path':
            path = pat[1]
            if path == ['None']:
                return f'({s} is None)', []
            cls, v = self.variant(path, pat[-1])
            if v[1] == 'unit' and not any(x[1] != 'unit' for x in self.enums[path[0]].values()):
                return f'({s} == {cls})', []
            return f'isinstance({s}, {cls})', []
        if k == 'p_tuple':
            path, subs = pat[1], pat[2]
            if path == ['Some']:
                c, b = self.pat_test(subs[0], s)
                return f'({s} is not None)' + ('' if c == 'True' else f' and {c}'), b
            cls, v = self.variant(path, pat[-1])
            conds = [f'isinstance({s}, {cls})']
            binds: list[str] = []
            for i, sp in enumerate(subs):
                if sp[0] == 'p_rest':
                    continue
                c, b = self.pat_test(sp, f'{s}.f_{i}')
                if c != 'True':
                    conds.append(c)
                binds.extend(b)
            return ' and '.join(conds), binds
        if k == 'p_struct':
            path, fs = pat[1], pat[2]
            cls, v = self.variant(path, pat[-1])
            conds = [f'isinstance({s}, {cls})']
            binds = []
            for fn_, sub in fs:
                if sub is None:
                    binds.append(f'{pyname(fn_)} = {s}.f_{fn_}')
                else:
                    c, b = self.pat_test(sub, f'{s}.f_{fn_}')
                    if c != 'True':
                        conds.append(c)
                    binds.extend(b)
            return ' and '.join(conds), binds
        raise Unsupported(f'line {pat[-1]}: unsupported pattern kind {k}')

    # -- expressions that fit in one Python expression; complex ones get a temp via pre-statements
    def expr(self, e: Any) -> str:
        k = e[0]
        if k == 'num':
            return str(e[1])
        if k == 'bool':
            return 'True' if e[1] else 'False'
        if k == 'str':
            v = e[1][1:] if e[1].startswith('b') else e[1]
            v = v.replace('\n', ' ').replace('\\\n', ' ')
            return repr(v[1:-1].replace('\n', ' '))
        if k == 'unit':
            return 'None'
        if k == 'paren':
            return f'({self.expr(e[1])})'
        if k == 'path':
            path = e[1]
            if len(path) == 1:
                n = path[0]
                if n == 'None':
                    return 'None'
                if n in self.ref_params:
                    return f'{pyname(n)}.v'
                return pyname(n)
            if len(path) == 2 and (path[0], path[1]) in self.methods:
                return f'{path[0]}__{path[1]}'
            if len(path) == 2 and path[0] in self.enums:
                cls, v = self.variant(path, e[-1])
                if v[1] == 'unit':
                    if any(x[1] != 'unit' for x in self.enums[path[0]].values()):
                        return f'{cls}()'
                    return cls
                return cls
            if len(path) == 2 and (path[0], path[1]) in self.methods:
                return f'{path[0]}__{path[1]}'
            return '__'.join(path)
        if k == 'un':
            op, x = e[1], e[2]
            if op == '*':
                return self.expr(x)
            if op == '!':
                return f'(not {self.expr(x)})'
            return f'(-{self.expr(x)})'
        if k == 'ref':
            return self.expr(e[2])
        if k == 'bin':
            op = {'&&': 'and', '||': 'or'}.get(e[1], e[1])
            return f'({self.expr(e[2])} {op} {self.expr(e[3])})'
        if k == 'field':
            raise Unsupported(f'line {e[-1]}: field access .{e[2]}')
        if k == 'index':
            return f'rs_index({self.expr(e[1])}, {self.expr(e[2])})'
        if k == 'try':
            if not self.cur_ret_option:
                raise Unsupported(f'line {e[-1]}: ? outside a function returning Option')
            t = self.fresh('_q')
            self.w(f'{t} = {self.expr(e[1])}')
            self.w(f'if {t} is None:')
            self.w('    return None')
            return t
        if k == 'call':
            callee, args = e[1], e[2]
            if callee[0] == 'path':
                p = callee[1]
                if p == ['Some']:
                    return self.expr(args[0])
                if p in (['Rc', 'new'], ['Rc', 'clone']):
                    return self.expr(args[0])
                if p == ['Vec', 'with_capacity'] or p == ['Vec', 'new']:
                    return '[]'
                if len(p) == 2 and p[0] in self.enums and p[1] in self.enums[p[0]]:
                    cls, _ = self.variant(p, e[-1])
                    return f'{cls}({", ".join(self.expr(a) for a in args)})'
                if len(p) == 1 and p[0] in self.fns and self.refmut_call(e):
                    t = self.fresh()
                    self.emit_refmut_call(e, ('assign', t))
                    return t
            return f'{self.expr(callee)}({", ".join(self.expr(a) for a in args)})'
        if k == 'mcall':
            recv, m, args = e[1], e[2], e[3]
            r = self.expr(recv)
            a = [self.expr(x) for x in args]
            if m in ('by_ref', 'copied', 'cloned') and not a:
                return r
            if m in ('clone', 'as_ref', 'iter', 'into_iter') and not a:
                if m in ('iter', 'into_iter'):
                    return f'rs_iter({r})'
                return r
            if m in BUILTIN_METHODS:
                return f'rs_{m}({", ".join([r] + a)})'
            if m not in {name for (_, name) in self.methods}:
                raise Unsupported(f'line {e[-1]}: method .{m}() is neither defined in lib.rs nor modelled in vf/rsrt.py')
            return f'{r}.{pyname(m)}({", ".join(a)})'
        if k == 'structlit':
            path, fs = e[1], e[2]
            cls, v = self.variant(path, e[-1])
            order = v[2]
            given = {fn_: (self.expr(val) if val is not None else pyname(fn_)) for fn_, val in fs}
            if set(given) != set(order):
                raise Unsupported(f'line {e[-1]}: struct literal with missing fields')
            return f'{cls}({", ".join(given[f] for f in order)})'
        if k == 'closure':
            params, body = e[1], e[2]
            names = []
            for p in params:
                if p[0] == 'p_bind':
                    names.append(pyname(p[1]))
                elif p[0] == 'p_wild':
                    names.append('_')
                else:
                    raise Unsupported(f'line {e[-1]}: closure parameter pattern')
            fn = self.fresh('_f')
            self.w(f'def {fn}({", ".join(names)}):')
            saved = (self.cur_ret_option,)
            self.ind += 1
            if body[0] == 'block':
                self.emit_block(body, ('return',))
            else:
                self.emit_into(body, ('return',))
            self.ind -= 1
            (self.cur_ret_option,) = saved
            return fn
        if k == 'macro':
            name, args = e[1], e[2]
            if name == 'vec':
                return '[' + ', '.join(self.expr(a) for a in args) + ']'
            raise Unsupported(f'line {e[-1]}: macro {name}! in expression position')
        if k == 'matches':
            s = self.fresh('_s')
            self.w(f'{s} = {self.expr(e[1])}')
            c, b = self.pat_test(e[2], s)
            if b:
                raise Unsupported(f'line {e[-1]}: bindings in matches!')
            return f'({c})'
        if k in ('if', 'iflet', 'match', 'block'):
            t = self.fresh()
            self.emit_into(e, ('assign', t))
            return t
        if k == 'range':
            raise Unsupported(f'line {e[-1]}: range outside for')
        raise Unsupported(f'line {e[-1]}: unsupported expression kind {k}')


def transpile(src: str) -> str:
    toks = lex(src)
    items = Parser(toks).items()
    return Emitter(items).module()


def load_checker(path: str = '') -> Any:
    """transpile lib.rs as it is on disk now and return the generated module"""
    import types

    from .paths import REPO

    src = open(path or f'{REPO}/rust/src/lib.rs').read()
    code = transpile(src)
    mod = types.ModuleType('rs_checker')
    mod.__dict__['__source__'] = code
    exec(compile(code, '<rs2py:lib.rs>', 'exec'), mod.__dict__)
    return mod


if __name__ == '__main__':
    import sys

    print(transpile(open(sys.argv[1] if len(sys.argv) > 1 else '/repo/rust/src/lib.rs').read()))
