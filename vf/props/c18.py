"""C18 Output is a deterministic function of the input."""
from __future__ import annotations

import json
import os
import subprocess
import sys
from typing import Any

from .. import nondet, symx
from . import common

ID = 'C18'
FUNCTIONS = [
    'proof.py: ProofExp.serialize (binary and pretty, both optimise settings), execute_full; counting_interpreter.py: CountingInterpreter incl. finalize; optimizing_interpreters.py: MemoizingInterpreter; interpreter.py',
    'metamath/converter/converter.py, scope.py, metamath/translate.py: MetamathConverter, exec_proof on the shipped benchmark databases (parsed by the real parser once per path)',
    'all of them loaded from their current source through the iteration-site rewrite of vf/nondet.py',
]
ASSUMPTIONS = [
    '"every hash seed" is modelled as iteration orders of the sets/frozensets that are iterated (for loops, comprehensions, list/tuple/sorted/min/max/enumerate/zip/iter/join arguments) in the rewritten modules: at up to k iteration events per run (k = 1 quick, 2 thorough; all others keep the natural order) the order is any of the n! orders for sets of up to 4 elements, natural / reversed / rotated for larger ones (counted)',
    'dict order is insertion order (deterministic in Python) and is not permuted; pattern.py and the proof libraries are not rewritten',
    '"what was serialised before" is covered by running every sequence of up to two earlier serialisations from a menu of modules in one fresh child process and comparing the target\'s six outputs with those of a child that serialises only the target; separate OS processes differ only in these two respects',
]
OUTSIDE = 'sets above 4 elements are permuted in two orders only; histories longer than two serialisations (quick: two only for four of the eight targets, optimised); modules outside the menu'
EXPLANATION = (
    'bounded exhaustive exploration (symx forking, no sampling of seeds) of every iteration order of hash-ordered containers along the serialisation and translation paths: '
    'the six output streams must be identical to those of the natural order on every path; histories are enumerated exhaustively over a menu in fresh processes'
)

ROOT = os.path.dirname(os.path.dirname(os.path.dirname(os.path.abspath(__file__))))
REWRITTEN = [
    'proof_generation.proof',
    'proof_generation.interpreter',
    'proof_generation.counting_interpreter',
    'proof_generation.optimizing_interpreters',
    'proof_generation.stateful_interpreter',
    'proof_generation.metamath.converter.converter',
    'proof_generation.metamath.converter.scope',
    'proof_generation.metamath.translate',
]

_BASE: dict = {}


def setup() -> None:
    nondet.install(REWRITTEN)


def setup_concrete() -> None:
    nondet.install(REWRITTEN)


def reset() -> None:
    nondet.reset()
    from .. import patches

    patches.reset_caches()


def _run(module: str, optimize: bool, active: bool) -> list:
    from .. import c18_child

    nondet.ACTIVE = active
    try:
        pe = c18_child.build(module)
        return c18_child.outputs(pe, optimize)
    finally:
        nondet.ACTIVE = False


def h_order(ctx: Any, module: str, optimize: bool, deviations: int = 1, twin: bool = False) -> None:
    nondet.MAX_DEVIATIONS = deviations
    key = (module, optimize)
    if key not in _BASE:
        _BASE[key] = _run(module, optimize, False)
    base = _BASE[key]
    if not ctx.symbolic:
        # replay: the recorded order choices are applied through the same rewrite
        symx.CTX = ctx
    err = None
    try:
        got = _run(module, optimize, True)
    except Exception as e:
        err = e
        got = []
    finally:
        if not ctx.symbolic:
            symx.CTX = None
    ctx.count('reached')
    ctx.check(err is None, f'C18.order-dependent-failure[{module}|optimize={optimize}]', lambda: f'{module}: succeeds under the natural iteration order, raises {err!r} under this one')
    ctx.sample({'module': module, 'optimize': optimize, 'stream_lengths': [len(s) for s in got]})
    if twin:
        ctx.violation('TWIN')
    names = ('ml-gamma', 'ml-claim', 'ml-proof', 'pretty-gamma', 'pretty-claim', 'pretty-proof')
    for n, a, b in zip(names, base, got):
        ctx.check(a == b, f'C18.order-dependent-output[{module}|optimize={optimize}|{n}]', lambda: f'{module} optimize={optimize}: {n} has {len(b)} bytes under this iteration order, {len(a)} under the natural one')


POLICIES = ('reversed', 'seed1:', 'seed2:', 'seed3:')


def _patterns(size: int) -> list:
    from proof_generation import pattern as P

    syms = [P.Symbol(n) for n in ('a', 'b', 'd')]
    by = {1: list(syms)}
    for n in range(2, size + 1):
        cur = [P.Exists(0, p) for p in by[n - 1]] + [P.Mu(0, p) for p in by[n - 1]]
        for k in range(1, n - 1):
            for l in by[k]:
                for r in by[n - 1 - k]:
                    cur.append(P.App(l, r))
                    cur.append(P.Implies(l, r))
        by[n] = cur
    return [p for n in range(1, size + 1) for p in by[n]]


def h_order_gen(ctx: Any, size: int, twin: bool = False) -> None:
    """generated small theories (p -> q, q -> r |- p -> r over compound symbol patterns), optimised serialisation,
    under global re-ordering policies and single-event deviations"""
    from .. import c18_child
    from proof_generation.proof import ProofExp
    from proof_generation.proofs.propositional import Propositional
    from proof_generation import pattern as P

    pats = _patterns(size)
    p = pats[ctx.choose(len(pats), 'p')]
    q = pats[ctx.choose(len(pats), 'q')]
    r = _patterns(1)[ctx.choose(3, 'r')]
    ctx.assume(p != q and q != r and p != r)

    def build() -> Any:
        class Chain(ProofExp):
            def __init__(self) -> None:
                super().__init__()
                prop = self.import_module(Propositional())
                self._axioms = [P.Implies(p, q), P.Implies(q, r)]
                self._claims = [P.Implies(p, r)]
                self._proof_expressions = [prop.imp_transitivity(self.load_axiom_by_index(0), self.load_axiom_by_index(1))]

        return Chain()

    nondet.ACTIVE = False
    base = c18_child.outputs(build(), True)
    pol = POLICIES[ctx.choose(len(POLICIES), 'policy')]
    nondet.POLICY = pol
    nondet.MAX_DEVIATIONS = 0
    nondet.ACTIVE = True
    if not ctx.symbolic:
        symx.CTX = ctx
    try:
        got = c18_child.outputs(build(), True)
    finally:
        nondet.ACTIVE = False
        nondet.POLICY = ''
        if not ctx.symbolic:
            symx.CTX = None
    ctx.count('reached')
    ctx.sample({'p': str(p), 'q': str(q), 'r': str(r), 'policy': pol})
    if twin:
        ctx.violation('TWIN')
    names = ('ml-gamma', 'ml-claim', 'ml-proof', 'pretty-gamma', 'pretty-claim', 'pretty-proof')
    for n, a, b in zip(names, base, got):
        ctx.check(a == b, f'C18.order-dependent-output[generated-chain|{n}]', lambda: f'chain over p={p!s} q={q!s} r={r!s}, policy {pol!r}: {n} has {len(b)} bytes, {len(a)} under the natural order')


def _refl_pool(small: bool = False) -> list:
    from proof_generation import pattern as P

    z = P.App(P.Symbol('f'), P.Symbol('c'))
    y = P.Implies(z, P.MetaVar(0))
    x = P.Exists(0, y)
    pool = [z, y, x]
    for w in ((z, x) if small else (z, y, x)):
        for j in (10, 11):
            pool.append(P.Implies(w, P.MetaVar(j)))
    return pool


def h_order_refl(ctx: Any, nterms: int, small: bool = False, twin: bool = False) -> None:
    """generated "reflexivity facts" theories: claims T -> T proved by imp_refl(T) for every nterms-subset of a pool of
    nested terms sharing sub-patterns (equal memoisation scores are frequent there), optimised serialisation under the
    global re-ordering policies"""
    from itertools import combinations

    from .. import c18_child
    from proof_generation.proof import ProofExp
    from proof_generation.proofs.propositional import Propositional
    from proof_generation import pattern as P

    pool = _refl_pool(small)
    combos = list(combinations(range(len(pool)), nterms))
    pick = combos[ctx.choose(len(combos), 'terms')]
    terms = [pool[i] for i in pick]
    if ctx.choose(2, 'declaration order') == 1:
        terms.reverse()

    def build() -> Any:
        class Refl(ProofExp):
            def __init__(self) -> None:
                super().__init__()
                prop = self.import_module(Propositional())
                for t in terms:
                    self.add_claim(P.Implies(t, t))
                    self.add_proof_expression(prop.imp_refl(t))

        return Refl()

    nondet.ACTIVE = False
    base = c18_child.outputs(build(), True)
    pol = POLICIES[ctx.choose(len(POLICIES), 'policy')]
    nondet.POLICY = pol
    nondet.MAX_DEVIATIONS = 0
    nondet.ACTIVE = True
    if not ctx.symbolic:
        symx.CTX = ctx
    try:
        got = c18_child.outputs(build(), True)
    finally:
        nondet.ACTIVE = False
        nondet.POLICY = ''
        if not ctx.symbolic:
            symx.CTX = None
    ctx.count('reached')
    ctx.sample({'terms': [str(t) for t in terms], 'policy': pol})
    if twin:
        ctx.violation('TWIN')
    names = ('ml-gamma', 'ml-claim', 'ml-proof', 'pretty-gamma', 'pretty-claim', 'pretty-proof')
    for n, a, b in zip(names, base, got):
        ctx.check(a == b, f'C18.order-dependent-output[generated-reflexivity-theory|{n}]', lambda: f'claims T -> T for T in {[str(t) for t in terms]}, policy {pol!r}: {n} has {len(b)} bytes, {len(a)} under the natural order')


# -- histories in fresh processes --------------------------------------------------------------------

MENU = ('direct', 'schematic', 'chain', 'small_theory', 'neg-known', 'neg-raw', 'rev-symbols', 'three-imports')
SAME_OBJECT = ('small-neg', 'propositional', 'chain', 'schematic')


def _child(seq: list) -> Any:
    env = dict(os.environ)
    from ..paths import REPO

    env['PYTHONPATH'] = ROOT + f':{REPO}/generation/src'
    r = subprocess.run([sys.executable, '-m', 'vf.c18_child', json.dumps({'sequence': seq})], capture_output=True, text=True, env=env, cwd=ROOT)
    if r.returncode != 0:
        raise RuntimeError('child failed: ' + r.stderr[-800:])
    return json.loads(r.stdout.strip().split('\n')[-1])


def _hist_task(task: tuple) -> tuple:
    hist, target, opt = task
    if hist and hist[0] == '<same object>':
        # the same module object serialised before (with either setting), then again
        seq = [[target, hist[1]], [target, opt, 'same']]
    else:
        seq = [[h, opt] for h in hist] + [[target, opt]]
    try:
        return task, _child(seq)[-1]
    except RuntimeError as e:
        return task, {'failed': str(e)[-300:], 'sha': None, 'len': None}


def histories(tier: str) -> tuple[list, dict]:
    import multiprocessing as mp
    from itertools import product

    viol: list = []
    maxh = 2
    tasks = []
    for target in MENU:
        for opt in (False, True):
            for k in range(0, maxh + 1):
                for hist in product(MENU, repeat=k):
                    tasks.append((list(hist), target, opt))
    if tier == 'quick':
        tasks = [t for t in tasks if len(t[0]) <= 1 or (t[2] and t[0][0] != t[0][1] and t[1] in ('chain', 'neg-known', 'rev-symbols', 'three-imports'))]
    # two Metamath databases in which one token is a variable in one and a constant in the other, translated in one process
    for target, other in (('mm:ph2-constant', 'mm:two-variables'), ('mm:two-variables', 'mm:ph2-constant')):
        tasks.append(([], target, True))
        tasks.append(([other], target, True))
        tasks.append(([target, other], target, True))
    for target in SAME_OBJECT:
        for opt in (False, True):
            tasks.append(([], target, opt))
            for prev in (False, True):
                tasks.append((['<same object>', prev], target, opt))
    with mp.get_context('fork').Pool(os.cpu_count() or 4) as pool:
        results = pool.map(_hist_task, tasks, chunksize=2)
    base = {(t[1], t[2]): r for t, r in results if not t[0]}
    n_cmp = 0
    for t, r in results:
        if not t[0]:
            continue
        b = base[(t[1], t[2])]
        n_cmp += 1
        if b.get('failed'):
            raise RuntimeError('child failed on a fresh process: ' + b['failed'])
        if r['sha'] != b['sha']:
            viol.append(
                {
                    'sig': f'C18.history-dependent-output[{t[1]}|optimize={t[2]}]',
                    'path': 'inline: python -m vf.c18_child ' + json.dumps({'sequence': ([[t[1], t[0][1]], [t[1], t[2], 'same']] if t[0] and t[0][0] == '<same object>' else [[h, t[2]] for h in t[0]] + [[t[1], t[2]]])}),
                    'detail': (f'{t[1]} serialised after {t[0]} fails ({r["failed"]}) although it succeeds alone' if r.get('failed') else f'{t[1]} serialised after {t[0]} differs from {t[1]} serialised alone: stream lengths {r["len"]} vs {b["len"]}'),
                }
            )
    return viol, {'history_runs': len(tasks), 'compared_with_fresh': n_cmp, 'menu': list(MENU), 'max_history': maxh}


def levels(tier: str) -> list[dict]:
    M = 'vf.props.c18'
    q = tier == 'quick'
    bud = 120 if q else 1800
    L: list[dict] = []
    for mod in ('chain', 'chain2', 'small_theory', 'direct', 'three-imports') + (() if q else ('schematic', 'substitution')):
        for opt in (True, False):
            dv = 1 if mod in ('substitution',) else 2
            L.append(dict(label=f'orders/{mod}/optimize={opt}/deviating-iterations<={dv}', module=M, fn='h_order', kwargs=dict(module=mod, optimize=opt, deviations=dv), budget_s=bud, required=True, twin=(mod == 'chain' and opt)))
    L.append(dict(label=f'orders/generated-chains/patterns<={2 if q else 3}', module=M, fn='h_order_gen', kwargs=dict(size=2 if q else 3), budget_s=bud, required=True, twin=False))
    L.append(dict(label='orders/generated-reflexivity-theories/claims=4/pool=7', module=M, fn='h_order_refl', kwargs=dict(nterms=4, small=True), budget_s=bud, required=True, twin=False))
    for nt in (() if q else (3, 4, 5)):
        L.append(dict(label=f'orders/generated-reflexivity-theories/claims={nt}/pool=9', module=M, fn='h_order_refl', kwargs=dict(nterms=nt), budget_s=bud, required=True, twin=False))
    for bench in ('impreflex-compressed-goal', 'two-variables', 'ambiguous-vars') + (() if q else ('transfer-simple-compressed-goal',)):
        L.append(dict(label=f'orders/metamath:{bench}/optimize=True', module=M, fn='h_order', kwargs=dict(module=f'mm:{bench}', optimize=True), budget_s=bud, required=False, twin=False))
    return L


def run(tier: str) -> dict:
    res = common.run_levels(common.tiered(levels, tier))
    try:
        viol, stats = histories(tier)
    except RuntimeError as e:
        res.setdefault('inconclusive', []).append(str(e))
        return res
    res['direct_violations'] = viol
    res['validated_traces'] = res.get('validated_traces', 0) + stats['history_runs']
    res['extra'] = {'histories': stats}
    res['samples'] = [{'history_runs_in_fresh_processes': stats}]
    return res
