"""C01 Checker soundness: every accepted theorem is semantically valid.

Inductive step from an arbitrary valid state (DESIGN.md 5 C01): L-axiom, L-rule,
L-schema, L-plumbing, each a bounded solver obligation over the real checker
code (transpiled from rust/src/lib.rs on every run)."""
from __future__ import annotations

import os
import tempfile
from typing import Any

import z3

from .. import gens, mlsem, oracle as O, refm, rsbridge, rscheck, symx
from ..gens import Prof
from ..rsrt import Panic
from . import common

ID = 'C01'
FUNCTIONS = [
    'rust/src/lib.rs via rs2py: execute_instructions (Prop1/2/3, Quantifier, Existence, Instantiate, ModusPonens, Generalization, Substitution and all plumbing arms), instantiate_internal, apply_esubst, apply_ssubst, e_fresh, s_fresh, positive, negative, well_formed, is_redundant_subst, pop_stack*',
    'semantics: vf/mlsem.py (finite models, carrier <= 3, arbitrary symbol and application interpretations, all valuations)',
]
ASSUMPTIONS = [
    'the induction argument of DESIGN.md 5 C01 (on paper): L-axiom + L-rule + L-schema + L-plumbing give soundness of every accepted stream within the size bounds',
    'premises on the stack are well-formed patterns (every mu body positive in its variable): the checker constructs no others; conclusions are checked to be well-formed again',
    'mu X. phi is evaluated as F^n(empty), exact for positive phi on a carrier of n elements',
    'ids are mathematical integers in 0..255 (the checker only compares them)',
    'rs2py transpilation validated against the rustc-built checker in C05 of the same tree; every counterexample is rebuilt as a three-file input and run on the real binary',
    'app_ctx_holes empty; opcodes the checker does not implement (Frame, KnasterTarski, Propagation*, PreFixpoint, Singleton) panic and are out of scope',
]
OUTSIDE = 'premises above the node bounds, carriers above 3, instantiation values above the value bounds; L-schema (rule/instantiation commutation) only for premises with one constraint annotation per metavariable id -- for differently annotated occurrences only L-inst (admissibility and result of Instantiate) is established'
EXPLANATION = (
    'one instruction of the real checker is executed symbolically from a symbolic valid state (premise shapes by forking, all ids and the operand symbolic); '
    'on every accepting path z3 is asked for a finite model and valuation in which the premises are valid and the conclusion is not '
    '(counterexample-guided instantiation of the universally quantified premise valuations); unsat on every path = the rule is sound within the bound'
)

PROFS: dict[str, Prof] = {}


def _prof(name: str) -> Prof:
    if not PROFS:
        PROFS.update(
            {
                'conc': Prof(symbol=1),
                'conc_s': Prof(symbol=0),
                'leaf': Prof(symbol=0, exists=False, mu=False, implies=False, app=False),
                'val': Prof(symbol=0, app=False),
                'schem': Prof(symbol=0, app=False, metavars=2, subst=True, mv_cfgs=((0, 0, 0, 0), (1, 0, 0, 0), (0, 1, 0, 0))),
                'schem_mixed': Prof(symbol=0, app=False, metavars=2, subst=True, mv_cfgs=((0, 0, 0, 0), (1, 0, 0, 0), (0, 1, 0, 0), (0, 0, 1, 0), (0, 0, 0, 1))),
                'schem_subst': Prof(symbol=0, app=False, implies=False, exists=False, mu=False, metavars=2, subst=True),
                'val_bind': Prof(symbol=0, app=False, metavars=0),
                'val_schem': Prof(symbol=0, app=False, metavars=2, mv_cfgs=((0, 0, 0, 0), (1, 0, 0, 0), (0, 1, 0, 0))),
                'schem_small': Prof(symbol=0, app=False, mu=False, metavars=2, subst=True, mv_cfgs=((0, 0, 0, 0), (1, 0, 0, 0)), mv_shared=True),
            }
        )
    return PROFS[name]


def setup() -> None:
    rsbridge.mod()


def setup_concrete() -> None:
    rsbridge.mod()


def reset() -> None:
    pass


def _wf(t: tuple) -> bool:
    """every mu body is positive in its bound variable (concrete patterns)"""
    k = t[0]
    if k in ('imp', 'app'):
        return _wf(t[1]) and _wf(t[2])
    if k == 'ex':
        return _wf(t[2])
    if k == 'mu':
        return O.only_polarity(t[2], t[1], True) and _wf(t[2])
    if k in ('es', 'ss'):
        return _wf(t[1]) and _wf(t[3])
    return True


def _op(name: str) -> int:
    return refm.opcodes()[name]


def _exec(stack: list, buf: list, phase: str = 'proof', memory: list | None = None, claims: list | None = None) -> tuple:
    m = rsbridge.mod()
    ph = {'gamma': m.ExecutionPhase__Gamma, 'claim': m.ExecutionPhase__Claim, 'proof': m.ExecutionPhase__Proof}[phase]
    memory = memory if memory is not None else []
    claims = claims if claims is not None else []
    m.execute_instructions(list(buf), stack, memory, claims, ph)
    return stack, memory, claims


def _P(t: tuple) -> Any:
    return rsbridge.mod().Term__Pattern(rsbridge.to_rs(t))


def _T(t: tuple) -> Any:
    return rsbridge.mod().Term__Proved(rsbridge.to_rs(t))


def encode(t: tuple) -> list:
    """oracle term -> instruction bytes constructing it (for replay on the real binary)"""
    k = t[0]
    if k == 'ev':
        return [_op('EVar'), t[1]]
    if k == 'sv':
        return [_op('SVar'), t[1]]
    if k == 'sym':
        return [_op('Symbol'), rsbridge._SYM.get(t[1], t[1]) if not isinstance(t[1], int) else t[1]]
    if k == 'imp':
        return encode(t[1]) + encode(t[2]) + [_op('Implies')]
    if k == 'app':
        return encode(t[1]) + encode(t[2]) + [_op('App')]
    if k == 'ex':
        return encode(t[2]) + [_op('Exists'), t[1]]
    if k == 'mu':
        return encode(t[2]) + [_op('Mu'), t[1]]
    if k == 'mv':
        return [_op('MetaVar'), t[1]] + [b for l in t[2:] for b in [len(l), *l]]
    if k == 'es':
        return encode(t[3]) + encode(t[1]) + [_op('ESubst'), t[2]]
    if k == 'ss':
        return encode(t[3]) + encode(t[1]) + [_op('SSubst'), t[2]]
    raise TypeError(k)


def _id_vars(ctx: Any) -> list:
    return [(name, v) for name, v, lo, hi in ctx.vars] if ctx.symbolic else []


def _semantic_check(ctx: Any, premises: list, concl: tuple, nmax: int, sig: str, program: Any, what: str) -> None:
    """valid(premises) => valid(conclusion) in all models of carrier <= nmax"""
    if not _wf(concl):
        ctx.violation(sig + '.ill-formed-conclusion', f'{what}: conclusion {O.show(concl)} has a non-positive mu')
    solver = ctx.solver if ctx.symbolic else z3.Solver()
    ob = mlsem.Obligation(solver, premises, concl, nmax)
    try:
        cx = ob.decide(_id_vars(ctx))
    except RuntimeError as e:
        raise symx.Inconclusive(str(e))
    if ctx.symbolic:
        ctx.stats.queries += ob.queries
        ctx.count('semantic_obligations')
        ctx.count('cegis_rounds', ob.rounds)
    if cx is None:
        return
    if not ctx.symbolic:
        # replay: the real binary must accept the program that certifies the invalid conclusion
        g, c, p = program()
        if not rscheck.real_verdict(rscheck.real_binary(), g, c, p):
            raise symx.HarnessError('the real checker rejects the program rebuilt from the counterexample')
        d = os.path.join(os.path.dirname(os.path.dirname(os.path.dirname(os.path.abspath(__file__)))), 'replays', 'C01')
        os.makedirs(d, exist_ok=True)
        base = os.path.join(d, 'last_counterexample')
        for suf, b in (('.ml-gamma', g), ('.ml-claim', c), ('.ml-proof', p)):
            open(base + suf, 'wb').write(bytes(b))
    ctx.violation(sig, {'what': what, 'premises': [O.show(x) for x in premises], 'certified': O.show(concl), 'countermodel': cx}, values=cx['ids'] if ctx.symbolic else None)


def _implication(ctx: Any, n: int, prof: Prof) -> Any:
    """a pattern of n nodes that is an implication at the top"""
    from proof_generation import pattern as P

    sp = gens._splits(n - 1, 2)
    a, b = sp[ctx.choose(len(sp), 'split')]
    return P.Implies(gens.gen(ctx, a, prof), gens.gen(ctx, b, prof))


def h_rule(ctx: Any, rule: str, n: int, m: int, nmax: int, twin: bool = False) -> None:
    pr = _prof('conc_s')
    if rule == 'gen':
        prem = O.expand(_implication(ctx, n, pr))
        ctx.assume(_wf(prem))
        x = ctx.int('x')
        stack = [_T(prem)]
        buf = [_op('Generalization'), x]
        premises = [prem]
        program = lambda: (encode(prem) + [_op('Publish')], None, [_op('Load'), 0, _op('Generalization'), x])
    elif rule == 'subst':
        prem = O.expand(gens.gen(ctx, n, pr))
        plug = O.expand(gens.gen_upto(ctx, m, pr))
        ctx.assume(_wf(prem) and _wf(plug))
        x = ctx.int('X')
        stack = [_P(plug), _T(prem)]
        buf = [_op('Substitution'), x]
        premises = [prem]
        program = lambda: (encode(prem) + [_op('Publish')], None, encode(plug) + [_op('Load'), 0, _op('Substitution'), x])
    else:
        p1 = O.expand(_implication(ctx, n, pr))
        if ctx.choose(2, 'second') == 0:
            p2 = gens.fresh_copy(ctx, p1[1])
        else:
            p2 = O.expand(gens.gen_upto(ctx, m, pr))
        ctx.assume(_wf(p1) and _wf(p2))
        stack = [_T(p1), _T(p2)]
        buf = [_op('ModusPonens')]
        premises = [p1, p2]
        program = lambda: (encode(p1) + [_op('Publish')] + encode(p2) + [_op('Publish')], None, [_op('Load'), 0, _op('Load'), 1, _op('ModusPonens')])
    ctx.count('reached')
    try:
        _exec(stack, buf)
    except Panic:
        ctx.count('rejected')
        if not twin:
            return
        ctx.assume(False)
    ctx.count('accepted')
    top = stack[-1]
    ctx.check(len(stack) == 1 and type(top).__name__ == 'Term__Proved', f'C01.rule.{rule}.stack', lambda: repr(stack))
    concl = rsbridge.from_rs(top.f_0)
    ctx.sample({'rule': rule, 'premises': [O.show(p) for p in premises], 'operand_bytes': repr(buf), 'conclusion': O.show(concl)})
    if twin:
        ctx.violation('TWIN')

    def prog() -> tuple:
        g, _, p = program()
        return g, encode(concl) + [_op('Publish')], p + [_op('Publish')]

    _semantic_check(ctx, premises, concl, nmax, f'C01.rule.{rule}.unsound', prog, rule)


SCHEMAS = {'Prop1': (0, 1), 'Prop2': (0, 1, 2), 'Prop3': (0,), 'Quantifier': (0,), 'Existence': ()}


def h_axiom(ctx: Any, schema: str, m: int, nmax: int, twin: bool = False) -> None:
    mvs = SCHEMAS[schema]
    vals = [O.expand(gens.gen_upto(ctx, m, _prof('val'))) for _ in mvs]
    for v in vals:
        ctx.assume(_wf(v))
    # first id <-> topmost plug
    stack = [_P(v) for v in reversed(vals)]
    buf = [_op(schema)] + ([_op('Instantiate'), len(mvs), *mvs] if mvs else [])
    ctx.count('reached')
    try:
        _exec(stack, buf)
    except Panic:
        ctx.count('rejected')
        if not twin:
            return
        ctx.assume(False)
    ctx.count('accepted')
    concl = rsbridge.from_rs(stack[-1].f_0)
    ctx.check(len(stack) == 1 and type(stack[-1]).__name__ == 'Term__Proved', f'C01.axiom.{schema}.stack', lambda: repr(stack))
    ctx.check(not O.has_meta(concl), f'C01.axiom.{schema}.not-fully-instantiated', lambda: O.show(concl))
    ctx.sample({'schema': schema, 'values': [O.show(v) for v in vals], 'instance': O.show(concl)})
    if twin:
        ctx.violation('TWIN')

    def prog() -> tuple:
        p = []
        for v in reversed(vals):
            p += encode(v)
        return [], encode(concl) + [_op('Publish')], p + buf + [_op('Publish')]

    _semantic_check(ctx, [], concl, nmax, f'C01.axiom.{schema}.invalid-instance', prog, schema)


def _total_sigma(ctx: Any, terms: list, m: int, fill_bot: set | None = None) -> dict:
    mvs = set()
    for t in terms:
        mvs |= O.metavars(t)
    sig = {}
    for k in sorted(mvs):
        sig[k] = O.expand(gens.gen_upto(ctx, m, _prof('val')))
        ctx.assume(_wf(sig[k]))
    return sig


def _instantiate(target: Any, sig: dict) -> Any:
    """run the checker's Instantiate on a Term; returns the new Term or raises Panic"""
    ids = sorted(sig)
    stack = [_P(sig[k]) for k in reversed(ids)] + [target]
    _exec(stack, [_op('Instantiate'), len(ids), *ids])
    return stack[-1]


def h_schema(ctx: Any, rule: str, n: int, m: int, twin: bool = False) -> None:
    """a rule applied to schematic premises commutes with instantiation: every accepted instance of the
    schematic conclusion can be re-derived by instantiating the premises and applying the rule to the instances"""
    pr = _prof('schem_small')
    mod = rsbridge.mod()
    if rule == 'gen':
        prem = [O.expand(_implication(ctx, n, pr))]
        x = ctx.int('x')
        buf = [_op('Generalization'), x]
        pats: list = []
    elif rule == 'subst':
        prem = [O.expand(gens.gen(ctx, n, pr))]
        pats = [O.expand(gens.gen_upto(ctx, 1, _prof('leaf')))]
        x = ctx.int('X')
        buf = [_op('Substitution'), x]
    elif rule == 'mp':
        p1 = O.expand(_implication(ctx, n, pr))
        prem = [p1, gens.fresh_copy(ctx, p1[1], keep_mv=True)]
        buf = [_op('ModusPonens')]
        pats = []
    else:  # inst: Instantiate tau on a schematic theorem, then sigma
        prem = [O.expand(gens.gen(ctx, n, pr))]
        tau_keys = gens.delta_orders(2)[1 + ctx.choose(len(gens.delta_orders(2)) - 1, 'tau')]
        tau = {k: O.expand(gens.gen_upto(ctx, 2, _prof('schem_small'))) for k in tau_keys}
        pats = []
        buf = None
    for t in prem + pats:
        ctx.assume(_wf(t))
    ctx.count('reached')
    # step 1: the rule on the schematic premises
    try:
        if rule == 'inst':
            q_term = _instantiate(_T(prem[0]), tau)
        else:
            stack = [_P(p) for p in pats] + [_T(p) for p in prem]
            _exec(stack, buf)
            q_term = stack[-1]
    except Panic:
        ctx.count('rule_rejected')
        if not twin:
            return
        ctx.assume(False)
    Q = rsbridge.from_rs(q_term.f_0)
    # step 2: a total concrete instantiation of the schematic conclusion
    sig = _total_sigma(ctx, [Q], m)
    try:
        Qs = rsbridge.from_rs(_instantiate(q_term, sig).f_0) if sig else Q
    except Panic:
        ctx.count('instance_rejected')
        if not twin:
            return
        ctx.assume(False)
    ctx.count('accepted_instance')
    ctx.sample({'rule': rule, 'premises': [O.show(p) for p in prem], 'conclusion': O.show(Q), 'sigma': {k: O.show(v) for k, v in sig.items()}, 'instance': O.show(Qs)})
    if twin:
        ctx.violation('TWIN')
    # step 3: instantiate the premises (metavariables that vanished get the closed pattern bot) and re-apply the rule
    sig2 = dict(sig)
    allm = set()
    for t in prem + pats + (list(tau.values()) if rule == 'inst' else []):
        allm |= O.metavars(t)
    for k in allm:
        if k not in sig2:
            sig2[k] = refm.BOT
    what = f'{rule}: premises {[O.show(p) for p in prem]} conclusion {O.show(Q)} sigma { {k: O.show(v) for k, v in sig.items()} }'
    try:
        if rule == 'inst':
            # (P tau) sigma  ==  P (tau ; sigma)
            comp = {}
            for k, v in tau.items():
                comp[k] = rsbridge.from_rs(_instantiate(_P(v), sig2).f_0) if O.metavars(v) else v
            for k, v in sig2.items():
                if k not in comp:
                    comp[k] = v
            for v in comp.values():
                ctx.assume(not O.has_meta(v))
            R = rsbridge.from_rs(_instantiate(_T(prem[0]), comp).f_0)
        else:
            inst_prem = [_instantiate(_T(p), sig2) if O.metavars(p) else _T(p) for p in prem]
            inst_pats = [_instantiate(_P(p), sig2) if O.metavars(p) else _P(p) for p in pats]
            stack = inst_pats + inst_prem
            _exec(stack, buf)
            R = rsbridge.from_rs(stack[-1].f_0)
    except Panic as e:
        if 'capture' in (e.msg or ''):
            # alpha-renaming would be needed to re-derive this instance; not decided here
            ctx.count('premise_instance_needs_renaming')
            return
        ctx.violation(f'C01.schema.{rule}.instance-not-rederivable[{e.site}]', what + f' -- re-derivation panics: {e}')
    ctx.check(O.eq(R, Qs), f'C01.schema.{rule}.instance-differs', lambda: what + f': instance {O.show(Qs)} but re-derived {O.show(R)}')


PLUMBING = {
    # opcode name -> number of fixed operand bytes
    'EVar': 1, 'SVar': 1, 'Symbol': 1, 'Implies': 0, 'App': 0, 'Exists': 1, 'Mu': 1, 'CleanMetaVar': 1, 'ESubst': 1, 'SSubst': 1,
    'Pop': 0, 'Save': 0, 'Load': 1, 'Publish': 0, 'MetaVar': 6,
}
RULES_AND_AXIOMS = ('Prop1', 'Prop2', 'Prop3', 'Quantifier', 'Existence', 'ModusPonens', 'Generalization', 'Substitution', 'Instantiate')


def h_inst_adm(ctx: Any, n: int, m: int, prof: str = 'schem_mixed', val: str = 'val_schem', twin: bool = False) -> None:
    """L-inst: the instance relation the other lemmas quantify over.  On a Proved term whose metavariable occurrences
    carry arbitrary constraint annotations (different ones on different occurrences of one id: such terms are
    derivable, a plug may mention a metavariable with any annotation), an accepted Instantiate -- partial or total,
    plugs possibly schematic, ids in either order -- respects the constraints of EVERY occurrence of every
    instantiated id (the document's judgements, decided on the plug) and yields the textbook instance."""
    from ..rsrt import Panic

    tp = O.expand(gens.gen(ctx, n, _prof(prof)))
    orders = [(0,), (1,), (0, 1), (1, 0)]
    ids = list(orders[ctx.choose(len(orders), 'ids')])
    sig = {k: O.expand(gens.gen_upto(ctx, m, _prof(val))) for k in ids}
    ctx.count('reached')
    ctx.sample({'theorem': O.show(tp), 'sigma': {k: O.show(v) for k, v in sig.items()}})
    if twin:
        ctx.violation('TWIN')
    stack = [_P(sig[k]) for k in reversed(ids)] + [_T(tp)]
    try:
        _exec(stack, [_op('Instantiate'), len(ids), *ids])
    except Panic:
        ctx.count('rejected')
        return
    ctx.count('accepted')
    what = lambda: f'{O.show(tp)} instantiated with { {k: O.show(v) for k, v in sig.items()} } is accepted'
    for node in O.all_metavar_nodes(tp):
        if node[1] not in sig:
            continue
        v = sig[node[1]]
        for x in node[2]:
            ctx.check(O.doc_e_fresh(v, x), 'C01.inst.inadmissible-instance-accepted[e_fresh]', what)
        for X in node[3]:
            ctx.check(O.doc_s_fresh(v, X), 'C01.inst.inadmissible-instance-accepted[s_fresh]', what)
        for X in node[4]:
            ctx.check(O.doc_polarity(v, X, True), 'C01.inst.inadmissible-instance-accepted[positive]', what)
        for X in node[5]:
            ctx.check(O.doc_polarity(v, X, False), 'C01.inst.inadmissible-instance-accepted[negative]', what)
    from .c11 import _norm

    # a capturing substitution is not the substitution of the logic: where the textbook instance needs a renaming,
    # acceptance certifies something that is not an instance of the theorem
    try:
        O.inst(tp, sig, strict=True)
    except O.Capture:
        ctx.violation('C01.inst.capturing-instance-accepted', what())
    got = rsbridge.from_rs(stack[-1].f_0)
    want = O.inst(tp, sig)
    ctx.check(O.eq(_norm(got), _norm(want)), f'C01.inst.not-the-instance[{tp[0]}]', lambda: f'{O.show(tp)} . { {k: O.show(v) for k, v in sig.items()} } gives {O.show(got)}, the instance is {O.show(want)}')


def h_plumbing(ctx: Any, phase: str, twin: bool = False) -> None:
    """no instruction other than the axiom schemas and rules turns anything into a proved term
    (except gamma-phase Publish, which records an axiom), and proof-phase Publish only discharges a proved claim"""
    leaf = _prof('leaf')
    mod = rsbridge.mod()

    def entry(lbl: str) -> tuple:
        t = O.expand(gens.gen_upto(ctx, 1, leaf))
        return ('T' if ctx.choose(2, lbl) else 'P', t)

    ns = ctx.choose(3, 'stack')
    nm = ctx.choose(2, 'memory')
    st = [entry('s') for _ in range(ns)]
    me = [entry('m') for _ in range(nm)]
    cl = [O.expand(gens.gen_upto(ctx, 1, leaf)) for _ in range(ctx.choose(2, 'claims'))]
    stack = [(_T if k == 'T' else _P)(t) for k, t in st]
    memory = [(mod.Entry__Proved if k == 'T' else mod.Entry__Pattern)(rsbridge.to_rs(t)) for k, t in me]
    claims = [rsbridge.to_rs(t) for t in cl]
    names = list(PLUMBING) + ['<other>']
    name = names[ctx.choose(len(names), 'opcode')]
    if name == '<other>':
        op = ctx.int('op')
        for nm_ in list(PLUMBING) + list(RULES_AND_AXIOMS):
            ctx.assume(not (op == _op(nm_)))
        buf = [op]
    elif name == 'MetaVar':
        buf = [_op(name), ctx.int('id'), 0, 0, 0, 0, 0]
    else:
        buf = [_op(name)] + [ctx.int('a') for _ in range(PLUMBING[name])]
    before = [t for k, t in st + me if k == 'T']
    ctx.count('reached')
    try:
        _exec(stack, buf, phase, memory, claims)
    except Panic:
        ctx.count('rejected')
        if not twin:
            return
        ctx.assume(False)
    ctx.count('accepted')
    ctx.sample({'phase': phase, 'stack': [f'{k}:{O.show(t)}' for k, t in st], 'memory': [f'{k}:{O.show(t)}' for k, t in me], 'instruction': name, 'bytes': repr(buf)})
    if twin:
        ctx.violation('TWIN')
    ctx.check(name != '<other>', f'C01.plumbing[{phase}].accepts-unknown-opcode', lambda: repr(buf))
    after = [rsbridge.from_rs(e.f_0) for e in stack if type(e).__name__ == 'Term__Proved'] + [rsbridge.from_rs(e.f_0) for e in memory if type(e).__name__ == 'Entry__Proved']
    gamma_publish = phase == 'gamma' and name == 'Publish'
    for i, t in enumerate(after):
        ok = any(O.eq(t, b) for b in before)
        if not ok and gamma_publish and i == len(after) - 1 and st and st[-1][0] == 'P' and O.eq(t, st[-1][1]):
            ok = True
        ctx.check(ok, f'C01.plumbing[{phase}].{name}.creates-proved', lambda: f'{name} {buf!r} on stack {st!r} memory {me!r} produces Proved {O.show(t)}')
    if phase == 'proof' and name == 'Publish':
        ctx.check(bool(st) and st[-1][0] == 'T' and bool(cl) and O.eq(cl[-1], st[-1][1]), 'C01.plumbing[proof].publish-discharges-unproved-claim', lambda: f'{buf!r} {st!r} {cl!r}')


def levels(tier: str) -> list[dict]:
    M = 'vf.props.c01'
    q = tier == 'quick'
    bud = 100 if q else 1800
    nmax = 2 if q else 3
    L: list[dict] = []
    for sc in SCHEMAS:
        mm = (2 if sc == 'Prop2' else 3) if q else (3 if sc == 'Prop2' else 4)
        L.append(dict(label=f'L-axiom/{sc}/values<={mm},carrier<={nmax}', module=M, fn='h_axiom', kwargs=dict(schema=sc, m=mm, nmax=nmax), budget_s=bud, required=True, twin=(sc == 'Prop1')))
    for rule in ('gen', 'subst', 'mp'):
        for n in ([3, 4, 5] if q else [3, 4, 5, 6]):
            if rule == 'subst' and n == 3:
                L.append(dict(label=f'L-rule/subst/premise=1-2,plug<=2,carrier<={nmax}', module=M, fn='h_rule', kwargs=dict(rule='subst', n=2, m=2, nmax=nmax), budget_s=bud, required=True, twin=False))
            L.append(dict(label=f'L-rule/{rule}/premise={n},plug<={1 if q else 2},carrier<={nmax}', module=M, fn='h_rule', kwargs=dict(rule=rule, n=n, m=1 if q else 2, nmax=nmax), budget_s=bud, required=n <= 4, twin=(n == 3)))
    for rule in ('gen', 'subst', 'mp'):
        for n in ([3, 4, 5] if q else [3, 4, 5, 6]):
            if rule == 'subst' and n > (4 if q else 5):
                continue
            L.append(dict(label=f'L-schema/{rule}/premise={n},values<={1 if q else 2}', module=M, fn='h_schema', kwargs=dict(rule=rule, n=n, m=1 if q else 2), budget_s=bud, required=n <= 3, twin=(n == 3 and rule == 'gen')))
    # pending substitutions resolved on plugs with binders (capture): theorem = phi_k[leaf/x] or phi_k[leaf/X]
    L.append(dict(label=f'L-inst/pending-substitution,plugs-with-binders<={3 if q else 4}', module=M, fn='h_inst_adm', kwargs=dict(n=3, m=3 if q else 4, prof='schem_subst', val='val_bind'), budget_s=bud, required=True, twin=False))
    for n in ([2, 3, 4] if q else [2, 3, 4, 5]):
        L.append(dict(label=f'L-inst/theorem={n},plugs<={1 if q else 2}', module=M, fn='h_inst_adm', kwargs=dict(n=n, m=1 if q else 2), budget_s=bud, required=n <= 3, twin=(n == 3)))
    for ph in ('gamma', 'claim', 'proof'):
        L.append(dict(label=f'L-plumbing/{ph}', module=M, fn='h_plumbing', kwargs=dict(phase=ph), budget_s=bud, required=True, twin=(ph == 'proof')))
    return L


def run(tier: str) -> dict:
    return common.run_levels(common.tiered(levels, tier))
