"""C12 Notation is transparent."""
from __future__ import annotations

from typing import Any

from .. import gens, oracle as O, patches
from ..gens import Prof
from . import common

ID = 'C12'
FUNCTIONS = [
    'pattern.py: Instantiate.__eq__/simplify/evar_is_free/metavars/instantiate/apply_esubst/apply_ssubst',
    'pattern.py: Pattern.unwrap/extract, EVar/SVar/Symbol/Exists/Mu.deconstruct, match_single',
    'pattern.py: the dataclass __eq__ of all eleven pattern classes (reflected comparison with Instantiate)',
    'proofs/definedness.py, proofs/kore.py: the live Notation objects used as generators',
]
ASSUMPTIONS = [
    'ids are mathematical integers in 0..255',
    'id-blind structural hash installed on the Pattern dataclasses in the harness process',
    'expansion oracle = vf/oracle.py expand()/inst(), run symbolically next to the code under test',
]
OUTSIDE = 'patterns larger than the stated node bounds per side; notation nesting deeper than the size bound allows'
EXPLANATION = (
    'bounded symbolic execution of pattern.py on pairs of patterns with nested notation: shapes by forking, all ids symbolic; '
    '== must coincide with structural equality of full expansions, and every operation must commute with expansion'
)

PROFS: dict[str, Prof] = {}


def _prof(name: str) -> Prof:
    if not PROFS:
        from proof_generation import pattern as P
        from proof_generation.proofs import definedness as D
        from proof_generation.proofs import kore as K
        from proof_generation.proofs import substitution as S

        PROFS.update(
            {
                'prop': Prof(symbol=0, svar=False, mu=False, app=False, metavars=1, notations=(P.bot, P.neg, P.top, P._and, P._or, P.equiv)),
                'prop2': Prof(symbol=0, svar=False, mu=False, app=False, exists=True, metavars=1, notations=(P.bot, P.neg, P._and)),
                'defn': Prof(symbol=0, svar=False, mu=False, app=False, implies=False, metavars=1, notations=(D.ceil, D.floor, D.subset, D.equals, P.neg)),
                'kore': Prof(
                    symbol=0, svar=False, mu=False, app=False, implies=False, exists=False, metavars=1,
                    notations=(K.kore_top, K.kore_not, K.kore_and, K.kore_next, K.kore_implies, K.kore_bottom, K.in_sort, K.kore_dv, K.kore_kseq),
                ),
                'binder': Prof(symbol=0, svar=False, mu=False, app=False, implies=False, exists=True, metavars=1, notations=(D.functional, S.forall(0), S.forall(1), K.sorted_exists(0), P.neg)),
                'rawops': Prof(symbol=0, svar=False, mu=False, app=True, implies=False, exists=True, metavars=2, raw_inst=True),
                'rawbody': Prof(symbol=0, svar=False, mu=False, exists=False, app=False, metavars=2),
                'rawval': Prof(symbol=0, svar=False, mu=False, exists=False, app=False, implies=False, metavars=2),
                'small': Prof(symbol=0, svar=False, mu=False, app=False, metavars=1, notations=(P.bot, P.neg)),
                'plug': Prof(symbol=0, mu=False, app=False, implies=False, metavars=1),
            }
        )
    return PROFS[name]


def setup() -> None:
    patches.install_hash()


def reset() -> None:
    patches.reset_caches()


def h_eq(ctx: Any, n1: int, n2: int, prof: str, twin: bool = False) -> None:
    pr = _prof(prof)
    a = gens.gen(ctx, n1, pr)
    b = gens.gen(ctx, n2, pr)
    want = O.eq(O.expand(a), O.expand(b))
    got = bool(a == b)
    got_r = bool(b == a)
    ne = bool(a != b)
    ctx.count('reached')
    if want:
        ctx.count('equal_pairs')
    ctx.sample({'a': repr(a), 'b': repr(b), 'equal': want})
    if twin:
        ctx.violation('TWIN')
    ctx.check(got == want, f'C12.eq[{type(a).__name__},{type(b).__name__}]', lambda: f'{a!r} == {b!r} gives {got}, expansions equal: {want}')
    ctx.check(got_r == got, f'C12.eq-symmetry[{type(a).__name__},{type(b).__name__}]', lambda: f'{a!r} == {b!r}: {got} but reversed {got_r}')
    ctx.check(ne == (not got), f'C12.ne[{type(a).__name__},{type(b).__name__}]', lambda: f'{a!r} != {b!r} gives {ne}')


def h_eq_raw(ctx: Any, n: int, m: int, twin: bool = False) -> None:
    """two partial instantiations of one body (what instantiate_pattern / Instantiate.instantiate produce)"""
    from frozendict import frozendict
    from proof_generation import pattern as P

    body = gens.gen(ctx, n, _prof('rawbody'))
    orders = gens.delta_orders(2)
    d1 = {k: gens.gen_upto(ctx, m, _prof('rawval')) for k in orders[ctx.choose(len(orders), 'k1')]}
    d2 = {k: gens.gen_upto(ctx, m, _prof('rawval')) for k in orders[ctx.choose(len(orders), 'k2')]}
    a = P.Instantiate(body, frozendict(d1))
    b = P.Instantiate(body, frozendict(d2))
    if ctx.choose(2, 'wrap'):
        a, b = P.Implies(a, P.EVar(ctx.int('w'))), P.Implies(b, P.EVar(ctx.int('w')))
    want = O.eq(O.expand(a), O.expand(b))
    got = bool(a == b)
    got_r = bool(b == a)
    ctx.count('reached')
    if want:
        ctx.count('equal_pairs')
    ctx.sample({'a': repr(a), 'b': repr(b), 'equal': want})
    if twin:
        ctx.violation('TWIN')
    ctx.check(got == want, 'C12.eq[partial-Instantiate]', lambda: f'{a!r} == {b!r} gives {got}, expansions equal: {want}')
    ctx.check(got_r == want, 'C12.eq[partial-Instantiate,reversed]', lambda: f'{b!r} == {a!r} gives {got_r}, expansions equal: {want}')


def _battery(q: Any, x: Any, plug: Any) -> None:
    """every operation of the property once, results thrown away (warm-up on a sibling pattern)"""
    from proof_generation import pattern as P

    calls = [
        lambda: q == q,
        lambda: hash(q),
        lambda: str(q),
        lambda: q.evar_is_free(x),
        lambda: q.metavars(),
        lambda: q.apply_esubst(x, plug),
        lambda: q.apply_ssubst(x, plug),
        lambda: q.instantiate({0: plug}),
        lambda: [c.unwrap(q) for c in (P.Implies, P.App)],
        lambda: [c.deconstruct(q) for c in (P.Exists, P.Mu, P.EVar, P.SVar, P.Symbol)],
        lambda: P.match_single(P.Implies(P.MetaVar(0), P.MetaVar(1)), q),
        lambda: P.match_single(q, q),
    ]
    for c in calls:
        try:
            c()
        except Exception:
            pass


def h_ops(ctx: Any, n: int, prof: str, history: bool = False, twin: bool = False) -> None:
    from proof_generation import pattern as P

    pr = _prof(prof)
    p = gens.gen(ctx, n, pr)
    ctx.assume(gens.kinds(p).startswith('Instantiate') or 'Instantiate' in gens.kinds(p))
    te = O.expand(p)
    pe = gens.from_term(te)
    x = ctx.int('x')
    if history:
        # the answers must not depend on what was asked before: the whole battery runs first on the siblings of p
        # (other constructors / rotated notation keys) with the same variable and a sibling plug
        sibs = [gens.kind_swap(p), gens.key_swap(p), gens.arg_flip(p)]
        r = ctx.choose(len(sibs), 'first earlier call')
        for sib in sibs[r:] + sibs[:r]:
            _battery(sib, x, P.SVar(x))
    ctx.count('reached')
    ctx.sample({'p': repr(p), 'x': repr(x)})
    if twin:
        ctx.violation('TWIN')
    top = type(p).__name__
    # reflexivity against the expansion
    ctx.check(bool(p == pe) and bool(pe == p), f'C12.eq-expansion[{top}]', lambda: f'{p!r} vs its expansion {pe!r}')
    # free-variable test
    f1, f2 = bool(p.evar_is_free(x)), bool(pe.evar_is_free(x))
    ctx.check(f1 == f2, f'C12.evar_is_free[{top}]', lambda: f'{p!r}.evar_is_free({x}) = {f1}, on the expansion {f2}')
    # metavariable set
    ctx.check(p.metavars() == pe.metavars(), f'C12.metavars[{top}]', lambda: f'{p!r}: {p.metavars()} vs {pe.metavars()}')
    # substitution
    plug = gens.gen_upto(ctx, 1, _prof('plug'))
    for kind in ('e', 's'):
        r1 = p.apply_esubst(x, plug) if kind == 'e' else p.apply_ssubst(x, plug)
        r2 = pe.apply_esubst(x, plug) if kind == 'e' else pe.apply_ssubst(x, plug)
        ctx.check(O.eq(O.expand(r1), O.expand(r2)), f'C12.apply_{kind}subst[{top}]', lambda: f'{p!r}[{plug!r}/{x}] = {r1!r} vs {r2!r}')
    # instantiation
    d = {0: plug}
    r1, r2 = p.instantiate(d), pe.instantiate(d)
    ctx.check(O.eq(O.expand(r1), O.expand(r2)), f'C12.instantiate[{top}]', lambda: f'{p!r}.instantiate({d!r}) = {r1!r} vs {r2!r}')
    # destructuring
    for cls in (P.Implies, P.App):
        u1, u2 = cls.unwrap(p), cls.unwrap(pe)
        ok = (u1 is None) == (u2 is None) and (u1 is None or all(O.eq(O.expand(a), O.expand(b)) for a, b in zip(u1, u2)))
        ctx.check(ok, f'C12.unwrap.{cls.__name__}[{top}]', lambda: f'{p!r}: {u1!r} vs {u2!r}')
    for cls in (P.Exists, P.Mu):
        u1, u2 = cls.deconstruct(p), cls.deconstruct(pe)
        ok = (u1 is None) == (u2 is None) and (u1 is None or (bool(u1[0] == u2[0]) and O.eq(O.expand(u1[1]), O.expand(u2[1]))))
        ctx.check(ok, f'C12.deconstruct.{cls.__name__}[{top}]', lambda: f'{p!r}: {u1!r} vs {u2!r}')
    for cls in (P.EVar, P.SVar, P.Symbol):
        u1, u2 = cls.deconstruct(p), cls.deconstruct(pe)
        ok = (u1 is None) == (u2 is None) and (u1 is None or bool(u1 == u2))
        ctx.check(ok, f'C12.deconstruct.{cls.__name__}[{top}]', lambda: f'{p!r}: {u1!r} vs {u2!r}')
    # matching: as instance and as pattern
    schem = P.Implies(P.MetaVar(0), P.MetaVar(1))
    m1, m2 = P.match_single(schem, p), P.match_single(schem, pe)
    ok = (m1 is None) == (m2 is None) and (m1 is None or all(O.eq(O.expand(m1[k]), O.expand(m2[k])) for k in m1))
    ctx.check(ok, f'C12.match_single-instance[{top}]', lambda: f'{p!r}: {m1!r} vs {m2!r}')
    # a repeated metavariable whose occurrences are spelled differently (notation / expansion) and mean the same
    nl = P.Implies(P.MetaVar(0), P.MetaVar(0))
    for a, b in ((p, pe), (pe, p)):
        mn = P.match_single(nl, P.Implies(a, b))
        ctx.check(mn is not None and 0 in mn and O.eq(O.expand(mn[0]), te), f'C12.match_single-nonlinear[{top}]', lambda: f'phi0 -> phi0 against {a!r} -> {b!r}: {mn!r}')
    inst = gens.from_term(O.inst(te, {0: ('ev', 7)}))
    m1, m2 = P.match_single(p, inst), P.match_single(pe, inst)
    ok = (m1 is None) == (m2 is None) and (m1 is None or (set(m1) == set(m2) and all(O.eq(O.expand(m1[k]), O.expand(m2[k])) for k in m1)))
    ctx.check(ok, f'C12.match_single-pattern[{top}]', lambda: f'{p!r} against {inst!r}: {m1!r} vs {m2!r}')


def h_trans(ctx: Any, n: int, prof: str, twin: bool = False) -> None:
    """equivalence relation on triples (follows from h_eq when == coincides with the
    expansion equality; checked directly as well)"""
    pr = _prof(prof)
    a = gens.gen_upto(ctx, n, pr)
    b = gens.gen_upto(ctx, n, pr)
    c = gens.gen_upto(ctx, n, pr)
    ctx.count('reached')
    if twin:
        ctx.violation('TWIN')
    ctx.check(bool(a == a), 'C12.eq-reflexive', lambda: repr(a))
    if a == b and b == c:
        ctx.count('chains')
        ctx.check(bool(a == c), 'C12.eq-transitive', lambda: f'{a!r}, {b!r}, {c!r}')


def levels(tier: str) -> list[dict]:
    M = 'vf.props.c12'
    q = tier == 'quick'
    L: list[dict] = []
    bud = 50 if q else 600
    for n1, n2 in ([(1, 1), (2, 1), (2, 2), (3, 1), (3, 2), (3, 3)] if q else [(1, 1), (2, 1), (2, 2), (3, 1), (3, 2), (3, 3), (4, 2), (4, 3), (4, 4)]):
        L.append(dict(label=f'eq/prop/{n1}x{n2}', module=M, fn='h_eq', kwargs=dict(n1=n1, n2=n2, prof='prop'), budget_s=bud, required=n1 <= 3))
        if n1 != n2:
            L.append(dict(label=f'eq/prop/{n2}x{n1}', module=M, fn='h_eq', kwargs=dict(n1=n2, n2=n1, prof='prop'), budget_s=bud, required=n1 <= 3))
    for pn in ('defn', 'kore'):
        for n1, n2 in ([(2, 2), (3, 2), (3, 3)] if q else [(2, 2), (3, 2), (3, 3), (4, 3), (4, 4)]):
            L.append(dict(label=f'eq/{pn}/{n1}x{n2}', module=M, fn='h_eq', kwargs=dict(n1=n1, n2=n2, prof=pn), budget_s=bud, required=n1 <= 3))
    for n1, n2 in ([(2, 2), (3, 2), (3, 3), (4, 3)] if q else [(2, 2), (3, 2), (3, 3), (4, 3), (4, 4), (5, 4)]):
        L.append(dict(label=f'eq/binder/{n1}x{n2}', module=M, fn='h_eq', kwargs=dict(n1=n1, n2=n2, prof='binder'), budget_s=bud, required=n1 <= 3))
    for n in ([1, 3] if q else [1, 3, 5]):
        L.append(dict(label=f'eq/partial-instantiate/body={n},val<=1', module=M, fn='h_eq_raw', kwargs=dict(n=n, m=1), budget_s=bud, required=n <= 3, twin=(n == 3)))
    for n in ([3, 4] if q else [3, 4, 5]):
        L.append(dict(label=f'ops/partial-instantiate-of-open-bodies/n={n}', module=M, fn='h_ops', kwargs=dict(n=n, prof='rawops'), budget_s=bud, required=n <= 4, twin=False))
    for pn in ('binder',):
        for n in ([2, 3, 4] if q else [2, 3, 4, 5]):
            L.append(dict(label=f'ops/{pn}/n={n}', module=M, fn='h_ops', kwargs=dict(n=n, prof=pn), budget_s=bud, required=n <= 3, twin=False))
    for pn in ('prop', 'prop2', 'defn', 'kore'):
        for n in ([1, 2, 3] if q else [1, 2, 3, 4]):
            if n == 1 and pn in ('defn', 'kore'):
                continue
            L.append(dict(label=f'ops/{pn}/n={n}', module=M, fn='h_ops', kwargs=dict(n=n, prof=pn), budget_s=bud, required=n <= 3, twin=(n >= 2)))
    for pn, n in ([('prop', 2), ('prop', 3), ('binder', 3), ('rawops', 3)] if q else [('prop', 2), ('prop', 3), ('binder', 3), ('rawops', 3), ('prop2', 3), ('kore', 3), ('binder', 4), ('rawops', 4)]):
        L.append(dict(label=f'ops-after-the-same-operations-on-sibling-patterns/{pn}/n={n}', module=M, fn='h_ops', kwargs=dict(n=n, prof=pn, history=True), budget_s=bud, required=True, twin=False))
    L.append(dict(label='triples/small/n<=2', module=M, fn='h_trans', kwargs=dict(n=2 if q else 3, prof='small'), budget_s=bud, required=False))
    return L


def run(tier: str) -> dict:
    return common.run_levels(common.tiered(levels, tier))
