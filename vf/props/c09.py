"""C09 The tautology prover is a correct decision procedure."""
from __future__ import annotations

import time
from typing import Any

import z3

from .. import gens, oracle as O, patches, refm
from ..gens import Prof
from . import common

ID = 'C09'
FUNCTIONS = [
    'tautology.py: prove_tautology, to_conj_form, propag_neg, to_cnf, to_clauses, start_resolution_algorithm, resolution_algorithm, resolvable, is_trivial_clause, prove_trivial_clause, build_proof_from_hint, simplify_clause, merge_clauses and the lemmas they call',
    'proofs/propositional.py (lemmas), pattern.py (notation), stateful_interpreter.py (replay of the returned proofs)',
]
ASSUMPTIONS = [
    'metavariable ids stay concrete (the repo hashes and negates them); the syntax space is covered by exhaustive path forking up to the bound',
    'what the solver generalises over is the semantics: every formula and every stage output is rendered as a z3 Boolean term over the metavariables and z3 decides tautology / unsatisfiability / equivalence for all truth assignments',
    'this is the weakest fit of solver-based checking among the claimed properties (stated in DESIGN.md): the solver decides the oracle side, the implementation side is enumerated',
    'replay of returned proofs on a StatefulInterpreter only for formulas up to the replay bound (a replay can take minutes)',
]
OUTSIDE = 'formulas above the node bound / more metavariables; clause lists above the bound; proofs whose replay exceeds the time cap (listed)'
EXPLANATION = (
    'every propositional formula up to the bound is pushed through the real prover; z3 decides (over all assignments) whether it is a tautology or unsatisfiable, '
    'whether each normal-form stage returned an equivalent formula, and the returned proofs must conclude literally the pattern / its negation / the stage implications'
)

PROFS: dict[str, Prof] = {}


def _prof(name: str) -> Prof:
    if not PROFS:
        from proof_generation import pattern as P

        base = dict(symbol=0, evar=False, svar=False, exists=False, mu=False, app=False)
        PROFS.update(
            {
                'prop2': Prof(metavars=2, notations=(P.bot, P.neg, P._and, P._or, P.top), **base),
                'prop3': Prof(metavars=3, notations=(P.bot, P.neg, P._and, P._or), **base),
                'imp2': Prof(metavars=2, notations=(P.bot,), **base),
                'full2': Prof(metavars=2, notations=(P.bot, P.neg, P._and, P._or, P.top, P.equiv), **base),
            }
        )
    return PROFS[name]


def setup() -> None:
    patches.install_hash()


def setup_concrete() -> None:
    pass


def reset() -> None:
    patches.reset_caches()


def zbool(t: tuple) -> Any:
    """expanded oracle term of a propositional pattern -> z3 Bool"""
    if O.eq(t, refm.BOT) if t[0] == 'mu' else False:
        return z3.BoolVal(False)
    if t[0] == 'mv':
        return z3.Bool(f'phi{t[1]}')
    if t[0] == 'imp':
        return z3.Implies(zbool(t[1]), zbool(t[2]))
    raise TypeError(f'not propositional: {O.show(t)}')


def _unsat(f: Any) -> bool:
    from .. import symx

    s = z3.Solver()
    s.add(f)
    t0 = time.time()
    r = s.check()
    if symx.CTX is not None:
        symx.CTX.stats.queries += 1
        symx.CTX.stats.solver_s += time.time() - t0
    if r == z3.unknown:
        raise RuntimeError('z3 unknown')
    return r == z3.unsat


def _equiv(a: Any, b: Any) -> bool:
    return _unsat(a != b)


def _replay(th: Any, t: Any) -> Any:
    from proof_generation.interpreter import ExecutionPhase
    from proof_generation.proved import Proved
    from proof_generation.stateful_interpreter import StatefulInterpreter

    it = StatefulInterpreter(ExecutionPhase.Proof)
    it.memory = [Proved(a) for a in t._axioms]
    return th(it)


def _warm_formulas() -> list:
    from proof_generation import pattern as P

    a, b = P.MetaVar(0), P.MetaVar(1)
    return [
        P.neg(P._and(a, P._and(P._or(P.neg(a), b), P.neg(b)))),  # tautology whose refutation needs resolution steps
        P._or(a, P.neg(a)),
        P._and(P._or(a, b), P._and(P.neg(a), P.neg(b))),  # unsatisfiable
        P.Implies(a, b),  # contingent
    ]


def h_prove(ctx: Any, n: int, prof: str, replay: bool = False, history: bool = False, twin: bool = False) -> None:
    from proof_generation import pattern as P
    from proof_generation.tautology import Tautology

    f = gens.gen(ctx, n, _prof(prof))
    tf = O.expand(f)
    zf = zbool(tf)
    taut, unsat = _unsat(z3.Not(zf)), _unsat(zf)
    ctx.count('reached')
    ctx.count('tautologies' if taut else 'unsatisfiable' if unsat else 'contingent')
    ctx.sample({'formula': str(f), 'tautology': taut, 'unsatisfiable': unsat})
    if twin:
        ctx.violation('TWIN')
    t = Tautology()
    if history:
        # one prover object is asked several questions: the formula itself (twice in all), its negation and four fixed
        # formulas come first; their answers are thrown away
        ws = [f, P.neg(f)] + _warm_formulas()
        if ctx.choose(2, 'earlier questions: the formula itself first / last') == 1:
            ws = ws[2:] + ws[:2]
        for w in ws:
            try:
                t.prove_tautology(w)
            except Exception:
                ctx.count('warmup_raised')
    try:
        res = t.prove_tautology(f)
    except Exception as e:
        ctx.violation(f'C09.prove_tautology.raises[{type(e).__name__}]', f'{f!s}: {type(e).__name__}: {str(e)[:200]}')
    if res is None:
        ctx.check(not taut and not unsat, f'C09.prove_tautology.declines-{"tautology" if taut else "unsatisfiable"}', lambda: str(f))
        return
    verdict, pf = res
    if verdict:
        ctx.check(taut, 'C09.prove_tautology.proves-non-tautology', lambda: str(f))
        ctx.check(O.eq(O.expand(pf.conc), tf), 'C09.prove_tautology.conclusion-is-not-the-pattern', lambda: f'{f!s}: proof concludes {pf.conc!s}')
    else:
        ctx.check(unsat, 'C09.prove_tautology.refutes-satisfiable', lambda: str(f))
        ctx.check(O.eq(O.expand(pf.conc), refm.neg(tf)), 'C09.prove_tautology.conclusion-is-not-the-negation', lambda: f'{f!s}: proof concludes {pf.conc!s}')
    if replay:
        try:
            r = _replay(pf, t)
        except Exception as e:
            ctx.violation(f'C09.prove_tautology.proof-does-not-replay[{type(e).__name__}]', f'{f!s}: {str(e)[:200]}')
        ctx.check(O.eq(O.expand(r.conclusion), O.expand(pf.conc)), 'C09.prove_tautology.replayed-conclusion-differs', lambda: str(f))
        ctx.count('replayed')


# -- normal-form stages -------------------------------------------------------------------------


def cf_pattern(cf: Any) -> Any:
    from proof_generation.tautology import conj_to_pattern

    return conj_to_pattern(cf)


def cf_shape(cf: Any) -> Any:
    """immutable snapshot of a ConjForm tree (the stages mutate their input)"""
    n = type(cf).__name__
    if n == 'CFVar':
        return ('var', cf.id, cf.negated)
    if n == 'CFBot':
        return ('bot', cf.negated)
    return ('and' if n == 'CFAnd' else 'or', cf.negated, cf_shape(cf.left), cf_shape(cf.right))


def _check_impl_pair(ctx: Any, stage: str, what: str, pf1: Any, pf2: Any, tin: tuple, zout: Any, tout: Any = None) -> None:
    """pf1 : in -> out', pf2 : out' -> in with out' propositionally equivalent to the returned form"""
    for pf, fwd in ((pf1, True), (pf2, False)):
        c = O.expand(pf.conc)
        ok = c[0] == 'imp' and O.eq(c[1] if fwd else c[2], tin)
        ctx.check(ok, f'C09.{stage}.implication-proof-has-wrong-shape', lambda: f'{what}: {"forward" if fwd else "backward"} proof concludes {pf.conc!s}')
        other = zbool(c[2] if fwd else c[1])
        ctx.check(_equiv(other, zout), f'C09.{stage}.implication-proof-about-another-formula', lambda: f'{what}: {"forward" if fwd else "backward"} proof concludes {pf.conc!s}')
        if tout is not None:
            # the clause list is the advertised result: the proofs are about its pattern, literally
            ctx.check(O.eq(c[2] if fwd else c[1], tout), f'C09.{stage}.implication-proof-not-about-the-returned-form', lambda: f'{what}: {"forward" if fwd else "backward"} proof concludes {pf.conc!s}, the returned form is {O.show(tout)}')


def h_conj_form(ctx: Any, n: int, prof: str, twin: bool = False) -> None:
    from proof_generation.tautology import Tautology

    f = gens.gen(ctx, n, _prof(prof))
    tf = O.expand(f)
    zf = zbool(tf)
    ctx.count('reached')
    ctx.sample({'stage': 'to_conj_form', 'formula': str(f)})
    if twin:
        ctx.violation('TWIN')
    t = Tautology()
    try:
        cf, pf1, pf2 = t.to_conj_form(f)
    except Exception as e:
        ctx.violation(f'C09.to_conj_form.raises[{type(e).__name__}]', f'{f!s}: {str(e)[:200]}')
    sh = cf_shape(cf)
    zout = zbool(O.expand(cf_pattern(cf)))
    ctx.check(_equiv(zf, zout), 'C09.to_conj_form.not-equivalent', lambda: f'{f!s} -> {cf!s}')

    def only_or(s: Any) -> bool:
        if s[0] == 'var':
            return True
        if s[0] == 'or':
            return only_or(s[2]) and only_or(s[3])
        return False

    if sh[0] == 'bot':
        ctx.check(pf2 is None, 'C09.to_conj_form.constant-with-second-proof', lambda: str(f))
        want = tf if sh[1] else refm.neg(tf)
        ctx.check(O.eq(O.expand(pf1.conc), want), 'C09.to_conj_form.constant-proof-wrong', lambda: f'{f!s}: constant {"top" if sh[1] else "bot"}, proof concludes {pf1.conc!s}')
        return
    ctx.check(only_or(sh), 'C09.to_conj_form.wrong-shape', lambda: f'{f!s} -> {sh!r}')
    _check_impl_pair(ctx, 'to_conj_form', str(f), pf1, pf2, tf, zout)


def gen_cf(ctx: Any, leaves: int, nvars: int, kinds: tuple, neg_inner: bool) -> Any:
    from proof_generation import tautology as T

    if leaves == 1:
        v = T.CFVar(ctx.choose(nvars, 'var'))
        v.negated = bool(ctx.choose(2, 'neg'))
        return v
    k = 1 + ctx.choose(leaves - 1, 'split')
    kind = kinds[ctx.choose(len(kinds), 'kind')]
    l = gen_cf(ctx, k, nvars, kinds, neg_inner)
    r = gen_cf(ctx, leaves - k, nvars, kinds, neg_inner)
    node = (T.CFAnd if kind == 'and' else T.CFOr)(l, r)
    if neg_inner:
        node.negated = bool(ctx.choose(2, 'negnode'))
    return node


def _is_cnf(s: Any, under_or: bool = False) -> bool:
    if s[0] == 'var':
        return True
    if s[1]:
        return False
    if s[0] == 'and':
        return (not under_or) and _is_cnf(s[2]) and _is_cnf(s[3])
    if s[0] == 'or':
        return _is_cnf(s[2], True) and _is_cnf(s[3], True)
    return False


def _nnf(s: Any) -> bool:
    if s[0] == 'var':
        return True
    if s[0] in ('and', 'or'):
        return not s[1] and _nnf(s[2]) and _nnf(s[3])
    return False


def h_stage(ctx: Any, stage: str, leaves: int, nvars: int, twin: bool = False) -> None:
    from proof_generation.tautology import Tautology, clause_conjunctionto_pattern

    t = Tautology()
    if stage == 'propag_neg':
        cf = gen_cf(ctx, leaves, nvars, ('or',), True)
    elif stage == 'to_cnf':
        cf = gen_cf(ctx, leaves, nvars, ('and', 'or'), False)
    else:
        cf = gen_cf(ctx, leaves, nvars, ('and', 'or'), False)
        ctx.assume(_is_cnf(cf_shape(cf)))
    pin = cf_pattern(cf)
    tin = O.expand(pin)
    zin = zbool(tin)
    ctx.count('reached')
    ctx.sample({'stage': stage, 'input': str(pin)})
    if twin:
        ctx.violation('TWIN')
    try:
        out, pf1, pf2 = getattr(t, stage)(cf)
    except Exception as e:
        ctx.violation(f'C09.{stage}.raises[{type(e).__name__}]', f'{pin!s}: {str(e)[:200]}')
    if stage == 'to_clauses':
        pout = clause_conjunctionto_pattern(out)
        ok = all(len(c) > 0 and all(isinstance(i, int) and i != 0 for i in c) for c in out)
        ctx.check(ok, 'C09.to_clauses.wrong-shape', lambda: f'{pin!s} -> {out!r}')
    else:
        sh = cf_shape(out)
        pout = cf_pattern(out)
        ctx.check(_nnf(sh) if stage == 'propag_neg' else _is_cnf(sh), f'C09.{stage}.wrong-shape', lambda: f'{pin!s} -> {pout!s}')
    zout = zbool(O.expand(pout))
    ctx.check(_equiv(zin, zout), f'C09.{stage}.not-equivalent', lambda: f'{pin!s} -> {pout!s}')
    _check_impl_pair(ctx, stage, str(pin), pf1, pf2, tin, zout, O.expand(pout) if stage == 'to_clauses' else None)


# -- resolution kernel --------------------------------------------------------------------------


def _clauses_universe(nvars: int, maxlen: int) -> list:
    from itertools import combinations

    lits = [i for v in range(1, nvars + 1) for i in (v, -v)]
    out = []
    for k in range(1, maxlen + 1):
        for c in combinations(lits, k):
            out.append(list(c))
    return out


def h_resolution(ctx: Any, nclauses: int, nvars: int, maxlen: int, replay: bool = False, history: bool = False, twin: bool = False) -> None:
    from proof_generation import pattern as P
    from proof_generation.tautology import Tautology, clause_conjunctionto_pattern

    uni = _clauses_universe(nvars, maxlen)
    clauses = [list(uni[ctx.choose(len(uni), 'clause')]) for _ in range(nclauses)]
    zc = z3.And([z3.Or([z3.Bool(f'phi{abs(i) - 1}') if i > 0 else z3.Not(z3.Bool(f'phi{abs(i) - 1}')) for i in c]) for c in clauses])
    taut, unsat = _unsat(z3.Not(zc)), _unsat(zc)
    ctx.count('reached')
    ctx.count('tautologies' if taut else 'unsatisfiable' if unsat else 'contingent')
    ctx.sample({'clauses': clauses, 'tautology': taut, 'unsatisfiable': unsat})
    if twin:
        ctx.violation('TWIN')
    t = Tautology()
    if history:
        wl = [[list(c) for c in clauses], [[1], [-1]], [[1, 2], [-1], [-2]], [[1, -1]], [[2], [-2, 1], [-1]]]
        if ctx.choose(2, 'earlier questions: the clause list itself first / last') == 1:
            wl = wl[1:] + wl[:1]
        for w in wl:
            try:
                t.start_resolution_algorithm([list(c) for c in w])
            except Exception:
                ctx.count('warmup_raised')
    try:
        res = t.start_resolution_algorithm([list(c) for c in clauses])
    except Exception as e:
        ctx.violation(f'C09.resolution.raises[{type(e).__name__}]', f'{clauses!r}: {str(e)[:200]}')
    if res is None:
        ctx.check(not taut and not unsat, f'C09.resolution.declines-{"tautology" if taut else "unsatisfiable"}', lambda: repr(clauses))
        return
    verdict, pf = res
    conj = O.expand(clause_conjunctionto_pattern([list(c) for c in clauses]))
    if verdict:
        ctx.check(taut, 'C09.resolution.proves-non-tautology', lambda: repr(clauses))
        ctx.check(O.eq(O.expand(pf.conc), conj), 'C09.resolution.conclusion-wrong', lambda: f'{clauses!r}: {pf.conc!s}')
    else:
        ctx.check(unsat, 'C09.resolution.refutes-satisfiable', lambda: repr(clauses))
        ctx.check(O.eq(O.expand(pf.conc), ('imp', conj, refm.BOT)), 'C09.resolution.conclusion-wrong', lambda: f'{clauses!r}: {pf.conc!s}')
    if replay:
        try:
            r = _replay(pf, t)
        except Exception as e:
            ctx.violation(f'C09.resolution.proof-does-not-replay[{type(e).__name__}]', f'{clauses!r}: {str(e)[:200]}')
        ctx.check(O.eq(O.expand(r.conclusion), O.expand(pf.conc)), 'C09.resolution.replayed-conclusion-differs', lambda: repr(clauses))
        ctx.count('replayed')


def _nest(kind: str, items: list, left: bool) -> Any:
    from proof_generation import tautology as T

    cls = T.CFAnd if kind == 'and' else T.CFOr
    if len(items) == 1:
        return items[0]
    if left:
        acc = items[0]
        for x in items[1:]:
            acc = cls(acc, x)
        return acc
    acc = items[-1]
    for x in reversed(items[:-1]):
        acc = cls(x, acc)
    return acc


def _lit(ctx: Any, nvars: int) -> Any:
    from proof_generation import tautology as T

    v = T.CFVar(ctx.choose(nvars, 'var'))
    v.negated = bool(ctx.choose(2, 'neg'))
    return v


def h_clauses_family(ctx: Any, maxk: int, maxm: int, quick: bool = True, twin: bool = False) -> None:
    """to_clauses on conjunctions of up to maxk clauses of up to maxm literals, nested to the left or to the right,
    on a Tautology instance that has already converted another such formula (state kept between calls must not matter)"""
    from proof_generation.tautology import Tautology, clause_conjunctionto_pattern

    from proof_generation import tautology as T

    def lit(i: int, j: int) -> Any:
        # the shape (clause count, clause lengths, nesting) is what varies; literals are fixed by position
        x = T.CFVar((i + j) % 3)
        x.negated = (i * j) % 2 == 1
        return x

    def formula(tag: str) -> Any:
        ks = [x for x in (1, 2, 4, 5) if x <= maxk] if maxk >= 4 else list(range(1, maxk + 1))
        k = ks[ctx.choose(len(ks), 'k' + tag)]
        cls = []
        for i in range(k):
            ms = [x for x in ((1, 4) if quick else (1, 2, 4)) if x <= maxm] if maxm >= 4 else list(range(1, maxm + 1))
            m = ms[ctx.choose(len(ms), 'm' + tag)]
            cls.append(_nest('or', [lit(i, j) for j in range(m)], bool(ctx.choose(2, 'orleft' + tag)) if m > 2 else True))
        return _nest('and', cls, bool(ctx.choose(2, 'andleft' + tag)) if k > 2 else True)

    t = Tautology()
    if ctx.choose(2, 'history'):
        # a fixed earlier conversion with a 3-clause left-nested conjunction and a 3-literal left-nested clause
        from proof_generation import tautology as T

        def v(i: int, neg: bool = False) -> Any:
            x = T.CFVar(i)
            x.negated = neg
            return x

        for earlier in (_nest('and', [v(0), v(1), v(0, True), v(2)], True), _nest('or', [v(0), v(1), v(1, True), v(2)], True)):
            try:
                t.to_clauses(earlier)
            except Exception:
                pass
    cf = formula('a')
    pin = cf_pattern(cf)
    tin = O.expand(pin)
    zin = zbool(tin)
    ctx.count('reached')
    ctx.sample({'stage': 'to_clauses', 'input': str(pin)})
    if twin:
        ctx.violation('TWIN')
    try:
        out, pf1, pf2 = t.to_clauses(cf)
    except Exception as e:
        ctx.violation(f'C09.to_clauses.raises[{type(e).__name__}]', f'{pin!s}: {str(e)[:200]}')
    pout = clause_conjunctionto_pattern(out)
    zout = zbool(O.expand(pout))
    ctx.check(_equiv(zin, zout), 'C09.to_clauses.not-equivalent', lambda: f'{pin!s} -> {pout!s}')
    _check_impl_pair(ctx, 'to_clauses', str(pin), pf1, pf2, tin, zout)


def levels(tier: str) -> list[dict]:
    M = 'vf.props.c09'
    q = tier == 'quick'
    bud = 120 if q else 2400
    L: list[dict] = []
    for n in ([1, 2, 3, 4] if q else [1, 2, 3, 4, 5, 6]):
        L.append(dict(label=f'prove/prop2/n={n}', module=M, fn='h_prove', kwargs=dict(n=n, prof='prop2', replay=(n <= (3 if q else 4))), budget_s=bud, required=n <= 4, twin=(n == 2)))
    for n in ([1, 2, 3] if q else [1, 2, 3, 4]):
        L.append(dict(label=f'prove/after-other-questions-on-the-same-prover/prop2/n={n}', module=M, fn='h_prove', kwargs=dict(n=n, prof='prop2', replay=(n <= 2), history=True), budget_s=bud, required=n <= 3, twin=False))
    for n in ([3, 5] if q else [3, 5, 7]):
        L.append(dict(label=f'prove/imp2/n={n}', module=M, fn='h_prove', kwargs=dict(n=n, prof='imp2', replay=(n <= 3)), budget_s=bud, required=n <= 5, twin=False))
    if not q:
        L.append(dict(label='prove/prop3/n=5', module=M, fn='h_prove', kwargs=dict(n=5, prof='prop3'), budget_s=bud, required=False, twin=False))
        L.append(dict(label='prove/full2/n=4', module=M, fn='h_prove', kwargs=dict(n=4, prof='full2'), budget_s=bud, required=False, twin=False))
    for n in ([1, 2, 3, 4] if q else [1, 2, 3, 4, 5]):
        L.append(dict(label=f'stage/to_conj_form/prop2/n={n}', module=M, fn='h_conj_form', kwargs=dict(n=n, prof='prop2'), budget_s=bud, required=n <= 4, twin=(n == 2)))
    for stage in ('propag_neg', 'to_cnf', 'to_clauses'):
        for lv in ([1, 2, 3, 4] if q else [1, 2, 3, 4, 5]):
            nv = 2 if lv >= 4 else 3
            L.append(dict(label=f'stage/{stage}/leaves={lv},vars={nv}', module=M, fn='h_stage', kwargs=dict(stage=stage, leaves=lv, nvars=nv), budget_s=bud, required=lv <= 3, twin=(lv == 2 and stage == 'to_cnf')))
    for mk, mm in ([(4, 4)] if q else [(4, 4), (5, 3)]):
        L.append(dict(label=f'stage/to_clauses/nested-families/clauses<={mk},literals<={mm}', module=M, fn='h_clauses_family', kwargs=dict(maxk=mk, maxm=mm, quick=q), budget_s=bud, required=True, twin=False))
    for nc, nv, ml in ([(1, 2, 2), (2, 2, 2)] if q else [(1, 2, 2), (2, 2, 2), (3, 2, 2)]):
        L.append(dict(label=f'resolution/after-other-clause-lists-on-the-same-prover/clauses={nc},vars={nv},len<={ml}', module=M, fn='h_resolution', kwargs=dict(nclauses=nc, nvars=nv, maxlen=ml, replay=(nc <= 1), history=True), budget_s=bud, required=nc <= 2, twin=False))
    for nc, nv, ml in ([(1, 2, 2), (2, 2, 2), (3, 2, 2), (2, 3, 2), (4, 2, 2), (1, 3, 4)] if q else [(1, 3, 4), (2, 2, 3), (1, 3, 3), (2, 3, 3), (3, 2, 2), (3, 3, 2), (4, 2, 2)]):
        L.append(dict(label=f'resolution/clauses={nc},vars={nv},len<={ml}', module=M, fn='h_resolution', kwargs=dict(nclauses=nc, nvars=nv, maxlen=ml, replay=(nc <= 2 and nv <= 2)), budget_s=bud, required=(nc <= 4 and nv <= 2) or nc == 1, twin=(nc == 2 and nv == 2 and ml == 2)))
    return L


def run(tier: str) -> dict:
    return common.run_levels(common.tiered(levels, tier))
