"""C04 Generator-side verifier state is a faithful simulation of the real machine."""
from __future__ import annotations

from typing import Any

from .. import callseq, oracle as O, patches, refm
from . import common

ID = 'C04'
FUNCTIONS = [
    'stateful_interpreter.py: every method of StatefulInterpreter',
    'serializing_interpreter.py: every method of SerializingInterpreter (with the module-global bytes shadowed so operands stay symbolic)',
    'io_interpreter.py: IOInterpreter phase switches; interpreter.py: Interpreter.into_*_phase',
    'oracle: vf/refm.py, the machine of docs/proof-language.md',
]
ASSUMPTIONS = [
    'ids are mathematical integers in 0..255; the real bytes() range contract is kept by the shadow (ValueError outside 0..255)',
    'id-blind structural hash installed on the Pattern dataclasses in the harness process',
    'the three output files are in-memory sinks',
    'the document is read with assumptions a1-a5 and unspecified cases u1-u3 of C05 (listed there); runs that reach an unspecified case are skipped and counted',
]
OUTSIDE = 'call sequences longer than the step bound; metavariable ids above 2 in instantiate; more than two plugs per instantiate'
EXPLANATION = (
    'bounded symbolic execution of the serialising interpreter on call sequences chosen by forking among the calls the tracked stack admits, all ids symbolic; '
    'after every call the bytes emitted so far (symbolic operands included) are run on the documented machine and its stack, memory and claim stack are compared with the tracker'
)


def setup() -> None:
    patches.install_hash()
    patches.shadow_bytes(True)


def setup_concrete() -> None:
    pass


def reset() -> None:
    patches.reset_caches()


def machine_state(it: Any) -> Any:
    """run the documented machine on what has been emitted so far; returns the Machine or raises"""
    from proof_generation.interpreter import ExecutionPhase

    g, c, p = callseq.streams(it)
    m = refm.Machine()
    m.run(g, 'gamma')
    if it.phase != ExecutionPhase.Gamma:
        m.stack = []
        m.run(c, 'claim')
    if it.phase == ExecutionPhase.Proof:
        m.stack = []
        m.run(p, 'proof')
    return m


def compare(ctx: Any, it: Any, call: str, log: list) -> bool:
    """False: path ends (unspecified)"""
    try:
        m = machine_state(it)
    except refm.Unspecified as e:
        ctx.count('unspecified_skipped')
        return False
    except refm.Reject as e:
        ctx.violation(f'C04.{call}.machine-rejects[{e}]', f'calls {log!r}: the documented machine aborts on the emitted bytes: {e}')
    symnum = dict(it._symbol_identifiers)
    if call == 'publish' and len(it.stack) == len(m.stack) + 1:
        # the machine consumed the published term, the tracker kept it: put on record, re-synchronise, go on
        ctx.soft_violation('C04.publish.stack-differs', f'calls {log!r}: after Publish the machine stack has {len(m.stack)} entries, the tracker still holds the published term on top')
        it.stack.pop()
        ctx.count('resynchronised_after_publish')
    want_stack = [callseq.entry_term(x, symnum) for x in it.stack]
    want_mem = [callseq.entry_term(x, symnum) for x in it.memory]
    want_claims = [callseq.number_symbols(O.expand(c.pattern), symnum) for c in it.claims]
    ok = len(m.stack) == len(want_stack) and all(a[0] == b[0] and O.eq(a[1], b[1]) for a, b in zip(m.stack, want_stack))
    ctx.check(ok, f'C04.{call}.stack-differs', lambda: f'calls {log!r}: machine stack {m.stack!r} tracker {want_stack!r}')
    ok = len(m.memory) == len(want_mem) and all(a[0] == b[0] and O.eq(a[1], b[1]) for a, b in zip(m.memory, want_mem))
    ctx.check(ok, f'C04.{call}.memory-differs', lambda: f'calls {log!r}: machine memory {m.memory!r} tracker {want_mem!r}')
    from proof_generation.interpreter import ExecutionPhase

    if it.phase == ExecutionPhase.Proof:
        mc = list(reversed(m.claims))
        ok = len(mc) == len(want_claims) and all(O.eq(a, b) for a, b in zip(mc, want_claims))
        ctx.check(ok, f'C04.{call}.claims-differ', lambda: f'calls {log!r}: machine claims {m.claims!r} tracker {want_claims!r}')
    return True


def _prelude(ctx: Any, phase: str) -> Any:
    """bring a fresh serialiser into the requested phase through its own API"""
    from proof_generation import pattern as P
    from proof_generation.claim import Claim

    if phase == 'gamma':
        it = callseq.new_serializer()
        it._declared = []
        return it
    claim = P.Implies(P.MetaVar(0), P.Implies(P.MetaVar(1), P.MetaVar(0)))
    claim2 = P.Implies(P.EVar(ctx.int('c')), P.EVar(ctx.int('c')))
    it = callseq.new_serializer(claims=[Claim(claim), Claim(claim2)])
    it._declared = [Claim(claim), Claim(claim2)]
    if phase == 'claim':
        it.into_claim_phase()
        return it
    ax = P.Implies(P.Symbol('s0'), P.Symbol('s1'))
    it.publish_axiom(it.pattern(ax))
    it.into_claim_phase()
    for c in (claim2, claim):
        it.publish_claim(it.pattern(c))
    it.into_proof_phase()
    return it


def h_seq(ctx: Any, alphabet: str, steps: int, phase: str, twin: bool = False) -> None:
    it = _prelude(ctx, phase)
    alpha = callseq.ALPHABETS[alphabet]
    log: list = []
    n = 1 + ctx.choose(steps, 'len') if not twin else steps
    for _ in range(n):
        adm = callseq.admissible(it, alpha)
        if not adm:
            break
        call = adm[ctx.choose(len(adm), 'call')]
        try:
            d = callseq.step(ctx, it, call)
        except Exception as e:
            ctx.count('interpreter_raised')
            return
        log.append(d)
        ctx.count('calls_checked')
        if not compare(ctx, it, call, log):
            return
    ctx.count('reached')
    ctx.sample({'phase': phase, 'calls': log})
    if twin:
        ctx.violation('TWIN')


def levels(tier: str) -> list[dict]:
    M = 'vf.props.c04'
    q = tier == 'quick'
    bud = 100 if q else 1800
    L: list[dict] = []
    plan = [('patterns', 'gamma', 3 if q else 5), ('patterns', 'claim', 3 if q else 4), ('proofs', 'proof', 3 if q else 5), ('small', 'proof', 4 if q else 6), ('all', 'gamma', 3 if q else 4)]
    plan += [('lookalike', 'gamma', 2 if q else 3), ('lookalike', 'proof', 2 if q else 3)]
    for alpha, ph, st in plan:
        L.append(dict(label=f'seq/{alpha}/{ph}/steps<={st}', module=M, fn='h_seq', kwargs=dict(alphabet=alpha, steps=st, phase=ph), budget_s=bud, required=True, twin=(alpha == 'small')))
    # module-level runs: imports, repeated axioms, every axiom loaded again in the proof phase (Load addressing)
    for shape, nax, size in ([(1, 1, 2), (2, 1, 2)] if q else [(1, 2, 2), (2, 1, 3), (2, 2, 2)]):
        L.append(dict(label=f'module/imports={shape},axioms={nax},size<={size}', module='vf.props.c03', fn='h_module', kwargs=dict(shape=shape, nax=nax, nclaims=2, prof='ax', size=size), budget_s=bud, required=True, twin=False))
    return L


def run(tier: str) -> dict:
    return common.run_levels(common.tiered(levels, tier))
