from __future__ import annotations

import importlib
import json
import os
import subprocess
import sys
import tempfile
import time
from typing import Any

from .. import engine, symx

ROOT = os.path.dirname(os.path.dirname(os.path.dirname(os.path.abspath(__file__))))


def _budget(lv: dict) -> float:
    """per-level time budget; the short (quick-tier) budgets are tripled so that a loaded machine does not turn a
    level that normally takes seconds into an inconclusive run"""
    b = float(lv.get('budget_s', 60.0))
    return b * 3 if b <= 200 else b


# thorough tier: the quick levels stay required; every deeper level is exploratory ("completed or not claimed"):
# it has its own budget, and once the whole check has used THOROUGH_CAP_S the remaining deep levels are not started
# (they are listed as not completed, not claimed).  A level that does not complete is never counted as held.
THOROUGH_CAP_S = float(os.environ.get('VERIF_THOROUGH_CAP_S', '1200'))
DEEP_LEVEL_BUDGET_S = float(os.environ.get('VERIF_DEEP_LEVEL_S', '400'))
T_START = time.time()


def tiered(levels_fn: Any, tier: str) -> list[dict]:
    if tier != 'thorough':
        return levels_fn(tier)
    base = levels_fn('quick')
    seen = {l['label'] for l in base}
    deep = []
    for l in levels_fn('thorough'):
        if l['label'] in seen:
            continue
        l = dict(l)
        l['required'] = False
        l['deep'] = True
        l['budget_s'] = max(201.0, min(float(l.get('budget_s', 600.0)), DEEP_LEVEL_BUDGET_S))
        deep.append(l)
    return base + deep


def _not_started() -> Any:
    st = symx.Stats()
    st.complete = False
    return st


# a whole check never runs longer than this (a change to the repo can blow a level up a hundredfold, e.g. a dict
# keyed by symbolic patterns): levels not started by then are reported as not completed -- violations found so far are
# still replayed and reported, and without any the run is inconclusive (never a pass)
TOTAL_CAP_S = float(os.environ.get('VERIF_TOTAL_CAP_S', '2400'))


def _capped(lv: dict) -> bool:
    el = time.time() - T_START
    return (bool(lv.get('deep')) and el > THOROUGH_CAP_S) or (not lv.get('deep') and el > TOTAL_CAP_S)


def _one_level(lv: dict) -> tuple:
    t0 = time.time()
    if _capped(lv):
        return lv, _not_started(), 0.0, None
    st = engine.explore(lv['module'], lv['fn'], lv['kwargs'], budget_s=_budget(lv), nproc=1)
    wall = time.time() - t0
    tw = None
    if lv.get('twin', True) and st.complete:
        tw = reach_twin(lv)
    return lv, st, wall, tw


def run_levels_parallel(levels: list[dict], nproc: int | None = None) -> dict:
    """many small levels: one process per level (each explored exhaustively by a single worker)"""
    import multiprocessing as mp

    out: dict[str, Any] = {'levels': [], 'errors': [], 'vacuous': [], 'inconclusive': [], 'validated_traces': 0}
    nproc = nproc or int(os.environ.get('VERIF_NPROC', '0')) or os.cpu_count() or 4
    with mp.get_context('fork').Pool(nproc, maxtasksperchild=8) as pool:
        results = list(pool.imap(_one_level, levels, chunksize=1))
    for lv, st, wall, tw in results:
        rec = dict(lv)
        rec['stats'] = st
        rec['wall_s'] = wall
        out['levels'].append(rec)
        if tw is not None:
            if tw[0]:
                out['validated_traces'] += 1
            else:
                out['vacuous'].append(f"{lv['label']}: reachability twin: {tw[1]}")
        reach = st.counters.get('reached')
        if lv.get('novacuity'):
            continue
        if st.complete and reach is not None and reach == 0:
            out['vacuous'].append(f"{lv['label']}: no path reached the assertion")
        if st.complete and st.paths == 0:
            out['vacuous'].append(f"{lv['label']}: no completed path")
    return out


def run_levels(levels: list[dict], total_budget_s: float | None = None) -> dict:
    """levels: dict(label, module, fn, kwargs, budget_s, required=False, twin=True)"""
    out: dict[str, Any] = {'levels': [], 'errors': [], 'vacuous': [], 'inconclusive': [], 'validated_traces': 0}
    t_start = time.time()
    twinned: set[str] = set()
    for lv in levels:
        if total_budget_s is not None and time.time() - t_start > total_budget_s and not lv.get('required'):
            continue
        if _capped(lv):
            rec = dict(lv)
            rec['stats'] = _not_started()
            rec['wall_s'] = 0.0
            rec['label'] = lv['label'] + ' (not started: time cap)'
            out['levels'].append(rec)
            continue
        t0 = time.time()
        st = engine.explore(lv['module'], lv['fn'], lv['kwargs'], budget_s=_budget(lv))
        rec = dict(lv)
        rec['stats'] = st
        rec['wall_s'] = time.time() - t0
        out['levels'].append(rec)
        key = lv['module'] + '.' + lv['fn']
        if lv.get('twin', True) and key not in twinned and st.complete:
            twinned.add(key)
            ok, msg = reach_twin(lv)
            if ok:
                out['validated_traces'] += 1
            else:
                out['vacuous'].append(f"{lv['label']}: reachability twin: {msg}")
        reach = st.counters.get('reached')
        if st.complete and reach is not None and reach == 0:
            out['vacuous'].append(f"{lv['label']}: no path reached the assertion")
        if st.complete and st.paths == 0:
            out['vacuous'].append(f"{lv['label']}: no completed path")
    return out


def reach_twin(lv: dict) -> tuple[bool, str]:
    """the same harness with its assertion replaced by False must yield a
    counterexample that replays on the real code"""
    kw = dict(lv['kwargs'])
    kw['twin'] = True
    st = engine.explore(lv['module'], lv['fn'], kw, budget_s=min(20.0, lv.get('budget_s', 20.0)), nproc=1)
    tw = [v for v in st.violations if v.get('sig') == 'TWIN' and 'choices' in v]
    if not tw:
        return False, 'twin found no reachable assertion'
    v = tw[0]
    rec = {'property': 'twin', 'module': lv['module'], 'fn': lv['fn'], 'kwargs': kw, 'sig': 'TWIN', 'detail': None, 'choices': v['choices'], 'ints': v['ints']}
    with tempfile.NamedTemporaryFile('w', suffix='.json', delete=False) as f:
        json.dump(rec, f, default=str)
        path = f.name
    try:
        r = subprocess.run([sys.executable, '-m', 'vf.run', 'X', '--replay', path], capture_output=True, text=True, cwd=ROOT)
    finally:
        os.unlink(path)
    if r.returncode != 0:
        return False, 'twin counterexample did not replay: ' + (r.stdout + r.stderr)[-500:]
    return True, 'ok'


def budget(tier: str, quick: float, thorough: float) -> float:
    return quick if tier == 'quick' else thorough
