"""C07 Python proof rules apply exactly when the documented rule applies."""
from __future__ import annotations

from typing import Any

from .. import gens, oracle as O, patches
from ..gens import Prof
from . import common

ID = 'C07'
FUNCTIONS = [
    'basic_interpreter.py: BasicInterpreter.modus_ponens / exists_generalization / instantiate',
    'stateful_interpreter.py: StatefulInterpreter.modus_ponens / exists_generalization / instantiate (stack discipline included)',
    'proof.py: ProofExp.modus_ponens / exists_generalization / instantiate (advertised conclusions) and ProofThunk.__call__',
    'pattern.py: Implies.extract, Instantiate.__eq__, evar_is_free of all classes',
]
ASSUMPTIONS = [
    'ids are mathematical integers in 0..255',
    'id-blind structural hash installed on the Pattern dataclasses in the harness process',
    'documented rule = docs/proof-language.md: ModusPonens (antecedent equality), Generalization (x fresh in the consequent by the documented e_fresh judgement; the conclusion is the rule the text names, (exists x. phi) -> psi), InstantiateSchema (simultaneous meta-substitution)',
    'an instantiation that violates a declared metavariable constraint is not counted as inapplicable here (the property does not list it; the missing check is recorded under C02/C04)',
]
OUTSIDE = 'premises above the node bounds'
EXPLANATION = (
    'bounded symbolic execution of the three rule implementations in every Python interpreter on symbolic premises '
    '(shapes by forking, ids as z3 integers; the second premise of modus ponens is the antecedent shape with fresh symbolic ids, '
    'so z3 decides on every path whether the antecedents coincide)'
)

PROFS: dict[str, Prof] = {}


_ASYM: list = []


def asym_notation() -> Any:
    """a binary notation that binds x0 over its second argument only: (phi0 -> exists x0. phi1)"""
    if not _ASYM:
        from proof_generation import pattern as P

        _ASYM.append(P.Notation('asym', 2, P.Implies(P.MetaVar(0), P.Exists(0, P.MetaVar(1))), '({0} ~> {1})'))
    return _ASYM[0]


def _prof(name: str) -> Prof:
    if not PROFS:
        from proof_generation import pattern as P
        from proof_generation.proofs import definedness as D
        from proof_generation.proofs import kore as K
        from proof_generation.proofs import substitution as S

        PROFS.update(
            {
                'prem': Prof(symbol=1, svar=False, mu=False, metavars=1, subst=True, mv_cfgs=((0, 0, 0, 0), (1, 0, 0, 0))),
                'prem_nt': Prof(symbol=0, svar=False, mu=False, app=False, metavars=1, notations=(P.bot, P.neg, P._and, P._or)),
                'prem_and': Prof(symbol=0, svar=False, mu=False, app=False, exists=False, metavars=0, notations=(P._and, P._or)),
                'prem_ss': Prof(symbol=0, svar=False, mu=False, app=False, exists=False, metavars=2, subst=True),
                'prem_es': Prof(symbol=0, svar=False, mu=False, app=False, exists=False, metavars=1, subst=True, mv_cfgs=((0, 0, 0, 0), (1, 0, 0, 0))),
                'rawbody': Prof(symbol=0, svar=False, mu=False, exists=False, app=False, metavars=2),
                'rawval': Prof(symbol=0, svar=False, mu=False, exists=False, app=False, implies=False, metavars=2),
                'small': Prof(symbol=1, svar=False, mu=False, metavars=1),
                'val': Prof(symbol=0, metavars=2, mu=False, app=False),
                'schem': Prof(symbol=0, svar=False, mu=False, metavars=2, subst=True, mv_cfgs=((0, 0, 0, 0), (1, 0, 0, 0))),
                'val_binder': Prof(symbol=0, svar=False, mu=False, app=True, implies=False, exists=False, metavars=0, notations=(D.functional, S.forall(0), S.forall(1), K.sorted_exists(1))),
                'prem_asym': Prof(symbol=1, svar=False, mu=False, app=False, exists=False, metavars=0, nt_key_orders=True, notations=(asym_notation(),)),
                'val_bs': Prof(symbol=0, implies=False),
                'schem_nt': Prof(symbol=0, svar=False, mu=False, app=False, metavars=2, notations=(P.bot, P.neg, P._and)),
            }
        )
    return PROFS[name]


def setup() -> None:
    patches.install_hash()


def reset() -> None:
    patches.reset_caches()


INTERPS = ('basic', 'stateful', 'thunk')


def _mk(kind: str) -> Any:
    from proof_generation.basic_interpreter import BasicInterpreter
    from proof_generation.interpreter import ExecutionPhase
    from proof_generation.stateful_interpreter import StatefulInterpreter

    if kind == 'basic':
        return BasicInterpreter(ExecutionPhase.Proof)
    return StatefulInterpreter(ExecutionPhase.Proof)


def _junk() -> Any:
    from proof_generation import pattern as P

    return P.Symbol('junk')


def _thunk(conc: Any) -> Any:
    from proof_generation.proof import ProofThunk
    from proof_generation.proved import Proved

    def run(interp: Any) -> Any:
        interp.load('premise', Proved(conc))
        return Proved(conc)

    return ProofThunk(run, conc)


def h_mp(ctx: Any, n: int, m: int, prof: str, interp: str, twin: bool = False) -> None:
    from proof_generation.proof import ProofExp
    from proof_generation.proved import Proved

    left = gens.gen(ctx, n, _prof(prof))
    el = O.expand(left)
    mode = ctx.choose(2, 'right')
    if mode == 0 and el[0] == 'imp':
        right = gens.from_term(gens.fresh_copy(ctx, el[1]))
    else:
        right = gens.gen_upto(ctx, m, _prof('small'))
    er = O.expand(right)
    applicable = el[0] == 'imp' and O.eq(el[1], er)
    res: Any = None
    stack_after: Any = None
    try:
        if interp == 'thunk':
            pe = ProofExp()
            th = pe.modus_ponens(_thunk(left), _thunk(right))
            it = _mk('stateful')
            it.memory = [Proved(left), Proved(right)]
            res = th(it)
            ctx.check(O.eq(O.expand(th.conc), O.expand(res.conclusion)), 'C07.mp.thunk-conc-differs', lambda: f'{th.conc!r} vs {res!r}')
        else:
            it = _mk(interp)
            L, R = Proved(left), Proved(right)
            if interp == 'stateful':
                it.stack = [_junk(), L, R]
            res = it.modus_ponens(L, R)
            if interp == 'stateful':
                stack_after = list(it.stack)
    except Exception:
        res = None
    ctx.count('reached')
    if applicable:
        ctx.count('applicable')
    ctx.sample({'left': repr(left), 'right': repr(right), 'applicable': applicable})
    if twin:
        ctx.violation('TWIN')
    if res is not None:
        ctx.check(applicable, f'C07.mp.returns-when-inapplicable[{interp}|{gens.kinds(left)}]', lambda: f'mp({left!r}, {right!r}) returned {res!r}')
        ctx.check(O.eq(O.expand(res.conclusion), el[2]), f'C07.mp.wrong-conclusion[{interp}]', lambda: f'mp({left!r}, {right!r}) returned {res!r}')
        if stack_after is not None:
            ctx.check(len(stack_after) == 2 and stack_after[1] == res, f'C07.mp.stack[{interp}]', lambda: repr(stack_after))
    else:
        ctx.check(not applicable, f'C07.mp.rejects-applicable[{interp}|{gens.kinds(left)}]', lambda: f'mp({left!r}, {right!r}) raised')


def h_mp_raw(ctx: Any, n: int, interp: str, twin: bool = False) -> None:
    """antecedent and minor premise are partial instantiations of one body"""
    from frozendict import frozendict
    from proof_generation import pattern as P
    from proof_generation.proved import Proved

    body = gens.gen(ctx, n, _prof('rawbody'))
    orders = gens.delta_orders(2)
    d1 = {k: gens.gen_upto(ctx, 1, _prof('rawval')) for k in orders[ctx.choose(len(orders), 'k1')]}
    d2 = {k: gens.gen_upto(ctx, 1, _prof('rawval')) for k in orders[ctx.choose(len(orders), 'k2')]}
    q = P.EVar(ctx.int('q'))
    left = P.Implies(P.Instantiate(body, frozendict(d1)), q)
    right = P.Instantiate(body, frozendict(d2))
    el, er = O.expand(left), O.expand(right)
    applicable = O.eq(el[1], er)
    res: Any = None
    try:
        it = _mk(interp if interp != 'thunk' else 'stateful')
        L, R = Proved(left), Proved(right)
        it.stack = [_junk(), L, R]
        res = it.modus_ponens(L, R)
    except Exception:
        res = None
    ctx.count('reached')
    if applicable:
        ctx.count('applicable')
    ctx.sample({'left': repr(left), 'right': repr(right), 'applicable': applicable})
    if twin:
        ctx.violation('TWIN')
    if res is not None:
        ctx.check(applicable, f'C07.mp.returns-when-inapplicable[{interp}|partial-Instantiate]', lambda: f'mp({left!r}, {right!r}) returned {res!r}')
    else:
        ctx.check(not applicable, f'C07.mp.rejects-applicable[{interp}|partial-Instantiate]', lambda: f'mp({left!r}, {right!r}) raised')


def h_gen(ctx: Any, n: int, prof: str, interp: str, history: bool = False, twin: bool = False) -> None:
    from proof_generation import pattern as P
    from proof_generation.proof import ProofExp
    from proof_generation.proved import Proved

    prem = gens.gen(ctx, n, _prof(prof))
    x = ctx.int('x')
    if history:
        # the rule must not depend on what was asked before: the same rule runs first on the sibling premises
        # (other constructors / shifted ids / rotated notation keys, same values) and the outcome is thrown away
        for sib in gens.siblings(prem, ctx):
            try:
                _mk('basic').exists_generalization(Proved(sib), P.EVar(x))
            except Exception:
                ctx.count('warmup_raised')
    ep = O.expand(prem)
    applicable = ep[0] == 'imp' and O.doc_e_fresh(ep[2], x)
    res: Any = None
    stack_after: Any = None
    try:
        if interp == 'thunk':
            th = ProofExp().exists_generalization(_thunk(prem), P.EVar(x))
            it = _mk('stateful')
            it.memory = [Proved(prem)]
            res = th(it)
        else:
            it = _mk(interp)
            pr = Proved(prem)
            if interp == 'stateful':
                it.stack = [_junk(), pr]
            res = it.exists_generalization(pr, P.EVar(x))
            if interp == 'stateful':
                stack_after = list(it.stack)
    except Exception:
        res = None
    ctx.count('reached')
    if applicable:
        ctx.count('applicable')
    ctx.sample({'premise': repr(prem), 'x': repr(x), 'applicable': applicable})
    if twin:
        ctx.violation('TWIN')
    if res is not None:
        ctx.check(applicable, f'C07.gen.returns-when-inapplicable[{interp}|{gens.kinds(prem)}]', lambda: f'gen({prem!r}, x={x}) returned {res!r}')
        want = ('imp', ('ex', x, ep[1]), ep[2])
        ctx.check(O.eq(O.expand(res.conclusion), want), f'C07.gen.wrong-conclusion[{interp}]', lambda: f'gen({prem!r}, x={x}) returned {res!r}')
        if stack_after is not None:
            ctx.check(len(stack_after) == 2 and stack_after[1] == res, f'C07.gen.stack[{interp}]', lambda: repr(stack_after))
    else:
        ctx.check(not applicable, f'C07.gen.rejects-applicable[{interp}|{gens.kinds(prem)}]', lambda: f'gen({prem!r}, x={x}) raised')


def h_inst(ctx: Any, n: int, m: int, prof: str, interp: str, val: str = 'val', twin: bool = False) -> None:
    from proof_generation import pattern as P
    from proof_generation.proof import ProofExp
    from proof_generation.proved import Proved

    if prof == 'ssubst':
        # a pending set-variable substitution, resolved on the value (binders of both kinds in the value)
        X = ctx.int('X')
        plug = gens.gen_upto(ctx, 1, _prof('val_bs'))
        prem = P.Implies(P.SSubst(P.MetaVar(0), P.SVar(X), plug), P.MetaVar(0))
        keys = (0,)
    elif prof == 'quantifier':
        # the Quantifier schema with symbolic variables: its pending substitution is resolved on the value
        x, y = ctx.int('x'), ctx.int('y')
        prem = P.Implies(P.ESubst(P.MetaVar(0), P.EVar(x), P.EVar(y)), P.Exists(x, P.MetaVar(0)))
        keys: tuple = (0,)
    else:
        pr = _prof(prof)
        prem = gens.gen(ctx, n, pr)
        orders = gens.delta_orders(pr.metavars)
        keys = orders[ctx.choose(len(orders), 'keys')]
    delta = {k: gens.gen_upto(ctx, m, _prof(val)) for k in keys}
    want = O.inst(O.expand(prem), {k: O.expand(v) for k, v in delta.items()})
    res: Any = None
    stack_after: Any = None
    exc: Any = None
    try:
        if interp == 'thunk':
            th = ProofExp().instantiate(_thunk(prem), dict(delta))
            ctx.check(O.eq(O.expand(th.conc), want), 'C07.inst.thunk-conc', lambda: f'{prem!r} . {delta!r}: advertised {th.conc!r}')
            res = Proved(th.conc)
        else:
            it = _mk(interp)
            p = Proved(prem)
            if interp == 'stateful':
                it.stack = [_junk(), *delta.values(), p]
            res = it.instantiate(p, dict(delta))
            if interp == 'stateful':
                stack_after = list(it.stack)
    except Exception as e:
        res = None
        exc = e
    ctx.count('reached')
    ctx.sample({'premise': repr(prem), 'delta': repr(delta)})
    if twin:
        ctx.violation('TWIN')
    ctx.check(res is not None, f'C07.inst.rejects-applicable[{interp}|{"empty" if not delta else "nonempty"}-delta]', lambda: f'instantiate({prem!r}, {delta!r}) raised {exc!r}')
    ctx.check(O.eq(O.expand(res.conclusion), want), f'C07.inst.wrong-conclusion[{interp}|{gens.kinds(prem)}]', lambda: f'instantiate({prem!r}, {delta!r}) = {res!r}')
    if stack_after is not None:
        ctx.check(len(stack_after) == 2 and stack_after[1] == res, f'C07.inst.stack[{interp}|{"empty" if not delta else "nonempty"}-delta]', lambda: repr(stack_after))


def levels(tier: str) -> list[dict]:
    M = 'vf.props.c07'
    q = tier == 'quick'
    bud = 50 if q else 600
    L: list[dict] = []
    for it in INTERPS:
        for pn in ('prem', 'prem_nt'):
            for n in ([3, 4] if q else [3, 4, 5]):
                L.append(dict(label=f'mp/{it}/{pn}/n={n}', module=M, fn='h_mp', kwargs=dict(n=n, m=2, prof=pn, interp=it), budget_s=bud, required=n <= 4, twin=(n == 3)))
            for n in ([3, 4] if q else [3, 4, 5]):
                L.append(dict(label=f'gen/{it}/{pn}/n={n}', module=M, fn='h_gen', kwargs=dict(n=n, prof=pn, interp=it), budget_s=bud, required=n <= 4, twin=(n == 3)))
            for n in ([1, 2] if q else [1, 3]):
                # non-implication premises
                L.append(dict(label=f'gen/{it}/{pn}/n={n}', module=M, fn='h_gen', kwargs=dict(n=n, prof=pn, interp=it), budget_s=bud, required=True, twin=False))
        for n in (5, 7) if q else (5, 7, 9):
            L.append(dict(label=f'gen/{it}/prem_and/n={n}', module=M, fn='h_gen', kwargs=dict(n=n, prof='prem_and', interp=it), budget_s=bud, required=n <= 5, twin=False))
            L.append(dict(label=f'mp/{it}/prem_and/n={n}', module=M, fn='h_mp', kwargs=dict(n=n, m=1, prof='prem_and', interp=it), budget_s=bud, required=n <= 5, twin=False))
        for n in ([5] if q else [5, 7]):
            L.append(dict(label=f'gen/{it}/after-sibling-calls/asymmetric-binder-notation/n={n}', module=M, fn='h_gen', kwargs=dict(n=n, prof='prem_asym', interp=it, history=True), budget_s=bud, required=n <= 5, twin=False))
        L.append(dict(label=f'gen/{it}/after-sibling-calls/prem_nt/n=4', module=M, fn='h_gen', kwargs=dict(n=4, prof='prem_nt', interp=it, history=True), budget_s=bud, required=True, twin=False))
        L.append(dict(label=f'gen/{it}/prem_ss/n=5', module=M, fn='h_gen', kwargs=dict(n=5, prof='prem_ss', interp=it), budget_s=bud, required=True, twin=False))
        # pending substitution over a metavariable that is declared fresh for some element variable (plug may mention it)
        L.append(dict(label=f'gen/{it}/prem_es/n=5', module=M, fn='h_gen', kwargs=dict(n=5, prof='prem_es', interp=it), budget_s=bud, required=True, twin=False))
        if it != 'thunk':
            for n in (1, 3):
                L.append(dict(label=f'mp/{it}/partial-instantiate/body={n}', module=M, fn='h_mp_raw', kwargs=dict(n=n, interp=it), budget_s=bud, required=True, twin=False))
        for m in ([2, 3, 4] if q else [2, 3, 4, 5]):
            L.append(dict(label=f'inst/{it}/quantifier-schema/binder-notation-value<={m}', module=M, fn='h_inst', kwargs=dict(n=0, m=m, prof='quantifier', interp=it, val='val_binder'), budget_s=bud, required=m <= 4, twin=False))
        for m in ([2, 3, 4] if q else [2, 3, 4, 5]):
            L.append(dict(label=f'inst/{it}/pending-set-substitution/value-with-binders<={m}', module=M, fn='h_inst', kwargs=dict(n=0, m=m, prof='ssubst', interp=it, val='val_bs'), budget_s=bud, required=m <= 3, twin=False))
        for pn in ('schem', 'schem_nt'):
            for n in ([1, 2, 3] if q else [1, 2, 3, 4]):
                L.append(dict(label=f'inst/{it}/{pn}/n={n}', module=M, fn='h_inst', kwargs=dict(n=n, m=1 if q else 2, prof=pn, interp=it), budget_s=bud, required=n <= 3, twin=(n == 2)))
    return L


def run(tier: str) -> dict:
    return common.run_levels(common.tiered(levels, tier))
