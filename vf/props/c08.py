"""C08 A proof means the same under every interpreter."""
from __future__ import annotations

from typing import Any

from .. import callseq, gens, oracle as O, patches
from ..gens import Prof
from . import common, c10

ID = 'C08'
FUNCTIONS = [
    'proof.py: ProofThunk.__call__, ProofExp.prop1-3/modus_ponens/exists_quantifier/exists_generalization/instantiate/dynamic_inst/load_axiom',
    'interpreter.py: Interpreter.pattern; basic/stateful/counting/serializing/pretty_printing interpreters; interpreter_transformer.py; optimizing_interpreters.py: MemoizingInterpreter, InstantiationOptimizer',
    'the library entry points of proofs/propositional.py and tautology.py as proof programs',
]
ASSUMPTIONS = [
    'ids are mathematical integers in 0..255; id-blind structural hash on the Pattern dataclasses; bytes() shadowed in the serialiser; output files are in-memory sinks',
    'interpreter stacks compared: Basic, Stateful, Counting, Serializing, PrettyPrinting, Memoizing(Stateful), Memoizing(Serializing) (empty memo set), InstantiationOptimizer(Basic), InstantiationOptimizer(Stateful), Memoizing(InstantiationOptimizer(Serializing)), the Counting -> finalize -> Memoizing(Stateful|Serializing) pipeline of ProofExp.serialize(optimize=True), and Memoizing over every pattern the counting run has seen',
    'an interpreter "fails" when it raises any Exception; stateful interpreters start with the declared axioms in memory',
]
OUTSIDE = 'proof expressions deeper than the grammar bound; library lemmas at argument sizes above 1'
EXPLANATION = (
    'proof expressions (a grammar over the raw rules with symbolic argument patterns, including empty, repeated, identity and out-of-order instantiations, '
    'and the library lemmas) are run symbolically through fourteen interpreter stacks; all must succeed with equal conclusions, equal to the advertised one, or all must raise'
)

STACKS = (
    'basic', 'stateful', 'counting', 'serializing', 'pretty', 'memo(stateful)', 'memo(serializing)', 'instopt(basic)', 'instopt(stateful)', 'memo(instopt(serializing))',
    # the optimisation pipeline of ProofExp.serialize: Counting -> finalize() -> Memoizing over the suggested set
    'pipeline(stateful)', 'pipeline(serializing)',
    # Memoizing over every pattern the counting run has seen
    'memo-all(stateful)', 'memo-all(serializing)',
)

PROFS: dict[str, Prof] = {}


def _prof(name: str) -> Prof:
    if not PROFS:
        from proof_generation import pattern as P

        PROFS.update(
            {
                'val': Prof(symbol=1, svar=False, mu=False, app=False, exists=False, implies=False, metavars=3, notations=(P.bot,)),
                'val2': Prof(symbol=0, svar=False, mu=False, app=False, exists=True, metavars=2, raw_inst=True, notations=(P.neg,)),
            }
        )
    return PROFS[name]


def setup() -> None:
    patches.install_hash()
    patches.shadow_bytes(True)
    c10.prepare()


def setup_concrete() -> None:
    c10.prepare()


def reset() -> None:
    patches.reset_caches()


def make(kind: str, axioms: list) -> Any:
    from proof_generation.basic_interpreter import BasicInterpreter
    from proof_generation.counting_interpreter import CountingInterpreter
    from proof_generation.interpreter import ExecutionPhase
    from proof_generation.optimizing_interpreters import InstantiationOptimizer, MemoizingInterpreter
    from proof_generation.pretty_printing_interpreter import PrettyPrintingInterpreter
    from proof_generation.proved import Proved
    from proof_generation.stateful_interpreter import StatefulInterpreter

    ph = ExecutionPhase.Proof
    mem = [Proved(a) for a in axioms]

    def st() -> Any:
        i = StatefulInterpreter(ph)
        i.memory = list(mem)
        return i

    def ser() -> Any:
        i = callseq.new_serializer(ph)
        i.memory = list(mem)
        return i

    if kind == 'basic':
        return BasicInterpreter(ph)
    if kind == 'stateful':
        return st()
    if kind == 'counting':
        i = CountingInterpreter(ph)
        i.memory = list(mem)
        return i
    if kind == 'serializing':
        return ser()
    if kind == 'pretty':
        i = PrettyPrintingInterpreter(ph, patches.Sink(), [], patches.Sink(), patches.Sink())
        i.memory = list(mem)
        return i
    if kind == 'memo(stateful)':
        return MemoizingInterpreter(st())
    if kind == 'memo(serializing)':
        return MemoizingInterpreter(ser())
    if kind == 'instopt(basic)':
        return InstantiationOptimizer(BasicInterpreter(ph))
    if kind == 'instopt(stateful)':
        return InstantiationOptimizer(st())
    if kind == 'memo(instopt(serializing))':
        return MemoizingInterpreter(InstantiationOptimizer(ser()))
    raise AssertionError(kind)


def make_memo(kind: str, axioms: list, th: Any) -> Any:
    from proof_generation.optimizing_interpreters import MemoizingInterpreter

    c = make('counting', axioms)
    th(c)
    suggested = c.finalize()
    memo = set(c._pattern_usage) if kind.startswith('memo-all') else suggested
    return MemoizingInterpreter(make('stateful' if kind.endswith('(stateful)') else 'serializing', axioms), memo)


def compare(ctx: Any, th: Any, axioms: list, what: str, label: str, stacks: tuple = ()) -> None:
    outcomes = {}
    STACKS = stacks or globals()['STACKS']
    for k in STACKS:
        try:
            r = th(make_memo(k, axioms, th) if k.startswith(('pipeline', 'memo-all')) else make(k, axioms))
            outcomes[k] = ('ok', O.expand(r.conclusion))
        except Exception as e:
            outcomes[k] = ('raise', type(e).__name__)
    oks = [k for k in STACKS if outcomes[k][0] == 'ok']
    bad = [k for k in STACKS if outcomes[k][0] != 'ok']
    if oks:
        ctx.count('succeeded_somewhere')
    ctx.check(not (oks and bad), f'C08.{label}.succeeds-in[{"+".join(oks[:3])}]-fails-in[{"+".join(bad[:3])}]', lambda: f'{what}: ' + ', '.join(f'{k}={outcomes[k][0]}:{outcomes[k][1] if outcomes[k][0] != "ok" else ""}' for k in STACKS))
    if not oks:
        ctx.count('all_raise')
        return
    ctx.count('all_succeed')
    want = O.expand(th.conc)
    for k in STACKS:
        ctx.check(O.eq(outcomes[k][1], want), f'C08.{label}.conclusion-differs[{k}]', lambda: f'{what}: {k} concludes {O.show(outcomes[k][1])}, advertised {O.show(want)}')


def _delta(ctx: Any, prof: str, allow_identity: bool = True) -> dict:
    from frozendict import frozendict
    from proof_generation import pattern as P

    orders = gens.delta_orders(2)
    keys = orders[ctx.choose(len(orders), 'keys')]
    d = {}
    for k in keys:
        o = ctx.choose(7 if prof == 'val2' else 6, 'value')
        if o == (6 if prof == 'val2' else 5):
            # a pending set-variable substitution as a plug (built through interpreter.ssubst by every stack)
            d[k] = P.SSubst(P.MetaVar(2), P.SVar(ctx.int('X')), P.EVar(ctx.int('e')))
        elif o == 4 and prof != 'val2' or o == 5:
            # prints like the clean MetaVar(1) but is a different pattern
            d[k] = P.MetaVar(1, e_fresh=(P.EVar(0),), s_fresh=(P.SVar(0),), positive=(P.SVar(1),), negative=(P.SVar(2),), app_ctx_holes=(P.EVar(1),))
        elif o == 0:
            d[k] = P.MetaVar(k)  # identity binding
        elif o == 1:
            d[k] = P.EVar(ctx.int('e'))
        elif o == 2:
            d[k] = P.MetaVar(1 - k)
        elif o == 3:
            d[k] = P.Symbol('s0')
        else:
            # a partially instantiated pattern whose keys are not ascending
            d[k] = P.Instantiate(P.Implies(P.MetaVar(0), P.MetaVar(1)), frozendict({1: P.EVar(ctx.int('e'))})).instantiate({0: P.EVar(ctx.int('e'))})
    return d


def gen_expr(ctx: Any, pe: Any, depth: int, prof: str) -> Any:
    """a ProofThunk built through the ProofExp API"""
    from proof_generation import pattern as P

    opts = ['prop1', 'prop2', 'prop3', 'axiom']
    if depth > 0:
        opts += ['instantiate', 'dynamic_inst', 'mp', 'gen', 'quantifier_inst']
    o = opts[ctx.choose(len(opts), 'expr')]
    if o == 'prop1':
        return pe.prop1()
    if o == 'prop2':
        return pe.prop2()
    if o == 'prop3':
        return pe.prop3()
    if o == 'axiom':
        return pe.load_axiom(pe._axioms[ctx.choose(len(pe._axioms), 'ax')])
    if o == 'instantiate':
        return pe.instantiate(gen_expr(ctx, pe, depth - 1, prof), _delta(ctx, prof))
    if o == 'dynamic_inst':
        return pe.dynamic_inst(gen_expr(ctx, pe, depth - 1, prof), _delta(ctx, prof))
    if o == 'quantifier_inst':
        return pe.instantiate(pe.exists_quantifier(), {0: gens.gen_upto(ctx, 1, _prof('val'))})
    if o == 'gen':
        return pe.exists_generalization(gen_expr(ctx, pe, depth - 1, prof), P.EVar(ctx.int('x')))
    # mp: an applicable one, (A -> (B -> A)) with A the conclusion of the minor premise
    minor = gen_expr(ctx, pe, depth - 1, prof)
    major = pe.instantiate(pe.prop1(), {0: minor.conc, 1: gens.gen_upto(ctx, 1, _prof('val'))})
    if ctx.choose(2, 'order') == 0:
        return pe.modus_ponens(major, minor)
    # the instantiated proof as the right premise (something lies below it on the stack)
    # (instantiate keeps an empty substitution as an instruction, dynamic_inst drops it: both forms)
    inner = (pe.dynamic_inst if ctx.choose(2, 'instantiation form') == 0 else pe.instantiate)(pe.prop1(), _delta(ctx, prof))
    major2 = pe.instantiate(pe.prop1(), {0: inner.conc, 1: P.MetaVar(2)})
    return pe.modus_ponens(major2, inner)


def h_raw(ctx: Any, depth: int, prof: str, twin: bool = False) -> None:
    from proof_generation import pattern as P
    from proof_generation.proof import ProofExp

    pe = ProofExp()
    pe.add_axiom(P.Implies(P.Symbol('s0'), P.MetaVar(0)))
    try:
        th = gen_expr(ctx, pe, depth, prof)
    except Exception:
        ctx.count('construction_raised')
        ctx.assume(False)
    ctx.count('reached')
    ctx.sample({'advertised': repr(th.conc)})
    if twin:
        ctx.violation('TWIN')
    compare(ctx, th, list(pe._axioms), f'expression with advertised conclusion {th.conc!r}', 'raw')


def h_lemma(ctx: Any, name: str, twin: bool = False) -> None:
    from proof_generation.tautology import Tautology

    info = c10.INV[name]
    b = c10.BIND[name]
    from proof_generation import pattern as P

    # concrete ids here: a lemma run costs seconds across the interpreter stacks, symbolic ids would re-execute it per fork
    full = P.MetaVar(1, e_fresh=(P.EVar(0),), s_fresh=(P.SVar(0),), positive=(P.SVar(1),), negative=(P.SVar(2),), app_ctx_holes=(P.EVar(1),))
    pool = [P.EVar(0), P.EVar(1), P.MetaVar(0), full, P.MetaVar(1), P.bot()]
    vals = {l: pool[ctx.choose(len(pool), 'leaf')] for l in info['letters']}
    prem, concl = info['schema']
    t = Tautology()
    thunks = []
    for p in prem:
        pat = c10.repo_pattern(p, vals)
        t.add_axiom(pat)
        thunks.append(t.load_axiom(pat))
    kwargs = {pn: vals[b[pn]] for pn in info['patterns']}
    kwargs.update(dict(zip(info['thunks'], thunks)))
    try:
        th = getattr(t, name)(**kwargs)
    except Exception:
        ctx.count('construction_raised')
        ctx.assume(False)
    ctx.count('reached')
    ctx.sample({'method': name, 'letters': {l: repr(v) for l, v in vals.items()}})
    if twin:
        ctx.violation('TWIN')
    compare(ctx, th, list(t._axioms), f'{name} with {vals!r}', f'lemma.{name}', LEMMA_STACKS)


LEMMA_STACKS = ('basic', 'stateful', 'counting', 'serializing', 'pretty', 'memo(serializing)', 'instopt(stateful)', 'pipeline(stateful)', 'pipeline(serializing)', 'memo-all(serializing)')
QUICK_LEMMAS = ('imp_refl', 'imp_transitivity', 'ant_commutativity', 'absurd', 'con1', 'and_intro', 'and_l', 'or_comm_imp', 'equiv_sym', 'or_assoc_r', 'dne_l_i', 'lemma1')


def levels(tier: str) -> list[dict]:
    c10.prepare()
    M = 'vf.props.c08'
    q = tier == 'quick'
    bud = 150 if q else 1800
    L: list[dict] = []
    for depth in ([0, 1] if q else [0, 1, 2]):
        L.append(dict(label=f'raw/depth={depth}/val', module=M, fn='h_raw', kwargs=dict(depth=depth, prof='val'), budget_s=bud, required=depth <= 1, twin=(depth == 1)))
    L.append(dict(label='raw/depth=1/partial-instantiate-values', module=M, fn='h_raw', kwargs=dict(depth=1, prof='val2'), budget_s=bud, required=True, twin=False))
    # whole modules through ProofExp.serialize, plain and optimised (Counting and Memoizing(Serializing) share the claim list)
    for shape, nax in ((0, 1), (1, 1), (3, 1)):
        L.append(dict(label=f'module/imports={shape},axioms={nax},size<=2,claims<=2', module='vf.props.c03', fn='h_module', kwargs=dict(shape=shape, nax=nax, nclaims=2, prof='ax', size=2), budget_s=bud, required=True, twin=False))
    names = [n for n in (QUICK_LEMMAS if q else sorted(c10.BIND)) if n in c10.BIND and (q or len(c10.INV[n]['letters']) <= 3)]
    for n in names:
        L.append(dict(label=f'lemma/{n}/args=1', module=M, fn='h_lemma', kwargs=dict(name=n), budget_s=bud, required=True, twin=False, small=True))
    return L


def run(tier: str) -> dict:
    lv = common.tiered(levels, tier)
    big = [l for l in lv if not l.get('small')]
    small = [l for l in lv if l.get('small')]
    res = common.run_levels(big)
    res2 = common.run_levels_parallel(small)
    res['levels'].extend(res2['levels'])
    res['vacuous'].extend(res2['vacuous'])
    res['validated_traces'] += res2['validated_traces']
    from . import c03

    dm = c03.concrete_memory_limit()
    res['direct_violations'] = dm
    res['samples'] = [{'concrete_test': 'memoisation plan around the 256-slot limit, plain vs optimised pipeline', 'violations': len(dm)}]
    return res
