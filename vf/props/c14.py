"""C14 Binary round trip: deserialising a serialised proof replays it."""
from __future__ import annotations

from typing import Any

from .. import callseq, oracle as O, patches, refm
from . import common

ID = 'C14'
FUNCTIONS = [
    'deserialize.py: deserialize_instructions (all arms, maybe_next_byte, next_byte, read_list)',
    'serializing_interpreter.py: every method of SerializingInterpreter (module-global bytes shadowed so operands stay symbolic)',
    'stateful_interpreter.py: the tracker both runs go through',
]
ASSUMPTIONS = [
    'ids are mathematical integers in 0..255',
    'id-blind structural hash installed on the Pattern dataclasses in the harness process',
    'the fresh interpreter is a second SerializingInterpreter, so that "the same sequence of machine steps" is decided by comparing the bytes it emits with the original bytes',
    'opcode bytes in truncation/corruption runs are concrete (an IntEnum lookup on a symbolic byte would enumerate all 256 values): invalid opcodes are drawn from a fixed list; operands are symbolic',
]
OUTSIDE = 'call sequences longer than the step bound'
EXPLANATION = (
    'bounded symbolic execution of serialiser + deserialiser on call sequences chosen by forking, all ids/operands symbolic and flowing through both; '
    'final stack/memory/claims and the re-emitted bytes are compared; every truncation of the emitted streams inside an instruction and a set of invalid opcodes at every instruction start must raise'
)


def setup() -> None:
    patches.install_hash()
    patches.shadow_bytes(True)


def setup_concrete() -> None:
    pass


def reset() -> None:
    patches.reset_caches()


def _prelude(ctx: Any, phase: str) -> Any:
    from .c04 import _prelude as p

    return p(ctx, phase)


def _replay(it: Any, streams: tuple, upto: str) -> Any:
    """feed the emitted bytes, phase by phase, through the deserialiser into a fresh serialising interpreter"""
    from proof_generation.claim import Claim
    from proof_generation.deserialize import deserialize_instructions

    fresh = callseq.new_serializer(claims=[Claim(c.pattern) for c in it._initial_claims])
    g, c, p = streams
    deserialize_instructions(g, fresh)
    if upto in ('claim', 'proof'):
        fresh.into_claim_phase()
        deserialize_instructions(c, fresh)
    if upto == 'proof':
        fresh.into_proof_phase()
        deserialize_instructions(p, fresh)
    return fresh


def _entries(it: Any, named: bool) -> tuple:
    sym = dict(it._symbol_identifiers) if named else None

    def conv(x: Any) -> tuple:
        k, t = callseq.entry_term(x, sym)
        return k, (callseq.number_symbols(t, {str(i): i for i in range(256)}) if not named else t)

    return [conv(x) for x in it.stack], [conv(x) for x in it.memory], [conv(c.pattern)[1] for c in it.claims]


def _phase_name(it: Any) -> str:
    return it.phase.name.lower()


def h_roundtrip(ctx: Any, alphabet: str, steps: int, phase: str, twin: bool = False) -> None:
    it = _prelude(ctx, phase)
    it._initial_claims = it._declared
    alpha = callseq.ALPHABETS[alphabet]
    log: list = []
    n = 1 + ctx.choose(steps, 'len') if not twin else steps
    for _ in range(n):
        adm = callseq.admissible(it, alpha)
        if not adm:
            break
        call = adm[ctx.choose(len(adm), 'call')]
        try:
            log.append(callseq.step(ctx, it, call))
        except Exception:
            ctx.count('interpreter_raised')
            return
    _finish(ctx, it, log, phase, twin)


def h_inst_orders(ctx: Any, kind: str, phase: str, twin: bool = False) -> None:
    """Instantiate with two plugs and every key order, on a pattern (any phase) or on an axiom schema (proof phase)"""
    from itertools import permutations

    from proof_generation import pattern as P

    it = _prelude(ctx, phase)
    it._initial_claims = it._declared
    log: list = []
    try:
        for _ in range(2):
            log.append(callseq.step(ctx, it, ('evar', 'symbol', 'cmetavar')[ctx.choose(3, 'leaf')]))
        plugs = list(it.stack[-2:])
        if kind == 'pattern':
            target = it.pattern(P.Implies(P.MetaVar(0), P.Implies(P.MetaVar(1), P.MetaVar(2))))
        else:
            target = it.prop2()
        orders = list(permutations(range(3), 2))
        keys = orders[ctx.choose(len(orders), 'keys')]
        delta = dict(zip(keys, plugs))
        log.append({'call': 'instantiate_pattern' if kind == 'pattern' else 'instantiate', 'keys': list(keys)})
        if kind == 'pattern':
            it.instantiate_pattern(target, delta)
        else:
            it.instantiate(target, delta)
        if phase != 'proof' and kind == 'pattern' and ctx.choose(2, 'publish'):
            log.append(callseq.step(ctx, it, 'publish'))
    except Exception:
        ctx.count('interpreter_raised')
        return
    _finish(ctx, it, log, phase, twin)


def _finish(ctx: Any, it: Any, log: list, phase: str, twin: bool) -> None:
    ctx.count('reached')
    ctx.sample({'phase': phase, 'calls': log})
    streams = callseq.streams(it)
    last = log[-1]['call'] if log else 'none'
    try:
        fresh = _replay(it, streams, _phase_name(it))
    except Exception as e:
        if twin:
            ctx.assume(False)
        ctx.violation(f'C14.replay-raises[{last}|{type(e).__name__}]', f'calls {log!r}: deserialising the emitted bytes raises {e!r}')
    if twin:
        ctx.violation('TWIN')
    a, b = _entries(it, True), _entries(fresh, False)
    for name, x, y in (('stack', a[0], b[0]), ('memory', a[1], b[1])):
        ok = len(x) == len(y) and all(p[0] == q[0] and O.eq(p[1], q[1]) for p, q in zip(x, y))
        ctx.check(ok, f'C14.{name}-differs[{last}]', lambda: f'calls {log!r}: serialising run {x!r}, replay {y!r}')
    ok = len(a[2]) == len(b[2]) and all(O.eq(p, q) for p, q in zip(a[2], b[2]))
    ctx.check(ok, f'C14.claims-differ[{last}]', lambda: f'calls {log!r}: serialising run {a[2]!r}, replay {b[2]!r}')
    # same sequence of machine steps: the replay emits the same bytes
    s2 = callseq.streams(fresh)
    for ph, x, y in zip(('gamma', 'claim', 'proof'), streams, s2):
        ok = len(x) == len(y) and all(bool(p == q) for p, q in zip(x, y))
        ctx.check(ok, f'C14.re-emitted-bytes-differ[{ph}|{last}]', lambda: f'calls {log!r}: {x!r} vs {y!r}')


INVALID_OPCODES = (0, 1, 0x1F, 0x20, 0x7F, 0x88, 0x8A, 0xFF)


def h_malformed(ctx: Any, alphabet: str, steps: int, phase: str, twin: bool = False) -> None:
    """truncations inside an instruction and invalid opcodes must raise, never be skipped"""
    from proof_generation.deserialize import deserialize_instructions

    it = _prelude(ctx, phase)
    alpha = callseq.ALPHABETS[alphabet]
    log: list = []
    for _ in range(steps):
        adm = callseq.admissible(it, alpha)
        if not adm:
            break
        call = adm[ctx.choose(len(adm), 'call')]
        try:
            log.append(callseq.step(ctx, it, call))
        except Exception:
            ctx.count('interpreter_raised')
            return
    streams = callseq.streams(it)
    idx = {'gamma': 0, 'claim': 1, 'proof': 2}[_phase_name(it)]
    buf = streams[idx]
    ctx.assume(len(buf) > 0)
    # instruction boundaries by operand layout (my own decoder, no semantics)
    starts = refm.boundaries(buf)
    ctx.assume(starts is not None and len(starts) > 0)
    mode = ctx.choose(2, 'mode')
    fresh = callseq.new_serializer(claims=[])
    # bring the fresh interpreter into the same phase with the untouched earlier streams
    try:
        deserialize_instructions(streams[0] if idx > 0 else [], fresh)
        if idx >= 1:
            fresh.into_claim_phase()
            if idx == 2:
                deserialize_instructions(streams[1], fresh)
                fresh.into_proof_phase()
    except Exception:
        ctx.assume(False)
    ctx.count('reached')
    if mode == 0:
        cut = 1 + ctx.choose(len(buf) - 1, 'cut') if len(buf) > 1 else 1
        ctx.assume(cut < len(buf) and cut not in starts)
        data = buf[:cut]
        ctx.sample({'calls': log, 'truncated_at': cut, 'of': len(buf)})
        if twin:
            ctx.violation('TWIN')
        try:
            deserialize_instructions(data, fresh)
        except Exception:
            ctx.count('raised_as_required')
            return
        ctx.violation(f'C14.truncation-accepted[{log[-1]["call"] if log else ""}]', f'calls {log!r}: stream {buf!r} cut at {cut} is deserialised without an error')
    else:
        pos = starts[ctx.choose(len(starts), 'pos')]
        bad = INVALID_OPCODES[ctx.choose(len(INVALID_OPCODES), 'bad')]
        data = list(buf)
        data[pos] = bad
        ctx.sample({'calls': log, 'opcode_at': pos, 'replaced_by': bad})
        if twin:
            ctx.violation('TWIN')
        try:
            deserialize_instructions(data, fresh)
        except Exception:
            ctx.count('raised_as_required')
            return
        ctx.violation(f'C14.unknown-opcode-accepted[{bad}]', f'calls {log!r}: stream {buf!r} with byte {bad} at {pos} is deserialised without an error')


def levels(tier: str) -> list[dict]:
    M = 'vf.props.c14'
    q = tier == 'quick'
    bud = 100 if q else 1800
    L: list[dict] = []
    plan = [('patterns', 'gamma', 3 if q else 5), ('patterns', 'claim', 3 if q else 4), ('proofs', 'proof', 3 if q else 5), ('small', 'proof', 3 if q else 6), ('all', 'gamma', 3 if q else 4), ('lookalike', 'gamma', 2 if q else 3), ('lookalike', 'proof', 2 if q else 3)]
    for alpha, ph, st in plan:
        L.append(dict(label=f'roundtrip/{alpha}/{ph}/steps<={st}', module=M, fn='h_roundtrip', kwargs=dict(alphabet=alpha, steps=st, phase=ph), budget_s=bud, required=True, twin=(alpha == 'small')))
    for kind, ph in (('pattern', 'gamma'), ('pattern', 'claim'), ('pattern', 'proof'), ('proof', 'proof')):
        L.append(dict(label=f'instantiate-key-orders/{kind}/{ph}', module=M, fn='h_inst_orders', kwargs=dict(kind=kind, phase=ph), budget_s=bud, required=True, twin=False))
    for alpha, ph, st in [('patterns', 'gamma', 2 if q else 3), ('proofs', 'proof', 2 if q else 3)]:
        L.append(dict(label=f'malformed/{alpha}/{ph}/steps={st}', module=M, fn='h_malformed', kwargs=dict(alphabet=alpha, steps=st, phase=ph), budget_s=bud, required=True, twin=False))
    return L


def run(tier: str) -> dict:
    return common.run_levels(common.tiered(levels, tier))
