"""C13 Matching is sound and complete."""
from __future__ import annotations

from typing import Any

from .. import gens, oracle as O, patches
from ..gens import Prof
from . import common

ID = 'C13'
FUNCTIONS = [
    'pattern.py: match_single, match, Notation.matches, Notation.assert_matches, Notation.__call__',
    'proofs/kore.py: nary_app, deconstruct_nary_application',
]
ASSUMPTIONS = [
    'ids are mathematical integers in 0..255',
    'id-blind structural hash installed on the Pattern dataclasses in the harness process',
    'instances for completeness are built by the oracle (vf/oracle.py inst) from a symbolic substitution',
]
OUTSIDE = 'patterns/instances above the node bounds; equation lists longer than 2; app_ctx_holes'
EXPLANATION = (
    'bounded symbolic execution of match_single/match/Notation.matches: schematic pattern, instance, seed substitution '
    'and equation lists are symbolic (shapes by forking, ids as z3 integers); soundness and completeness are asserted on every path'
)

PROFS: dict[str, Prof] = {}


def _prof(name: str) -> Prof:
    if not PROFS:
        from proof_generation import pattern as P

        PROFS.update(
            {
                'schem': Prof(symbol=1, metavars=2, subst=False),
                'schem_nt': Prof(symbol=0, svar=False, mu=False, app=False, metavars=2, notations=(P.bot, P.neg, P._and)),
                'schem_raw': Prof(symbol=0, svar=False, mu=False, app=False, exists=True, metavars=2, raw_inst=True),
                'inst': Prof(symbol=1, metavars=1),
                'eq_p': Prof(symbol=0, svar=False, mu=False, exists=False, app=False, metavars=2),
                'eq_i': Prof(symbol=0, mu=False, exists=False, app=False, metavars=1),
                'val': Prof(symbol=0, metavars=1, mu=False, app=False),
                'arg': Prof(symbol=0, svar=False, mu=False, app=False, metavars=1, notations=(P.bot, P.neg)),
            }
        )
    return PROFS[name]


def setup() -> None:
    patches.install_hash()


def reset() -> None:
    patches.reset_caches()


def _check_sound(ctx: Any, pat: Any, instance: Any, seed: dict, res: Any, tag: str) -> None:
    if res is None:
        return
    ctx.count('matched')
    got = pat.instantiate(res)
    ctx.check(
        O.eq(O.inst(O.expand(pat), {k: O.expand(v) for k, v in res.items()}), O.expand(instance)),
        f'C13.{tag}.unsound',
        lambda: f'match({pat!r}, {instance!r}, seed={seed!r}) = {res!r} but instantiating gives {got!r}',
    )
    for k, v in seed.items():
        ctx.check(k in res and O.eq(O.expand(res[k]), O.expand(v)), f'C13.{tag}.seed-not-respected', lambda: f'seed {seed!r} result {res!r}')


def _warm_matches(ctx: Any, pat: Any, instance: Any) -> None:
    """matching must not depend on earlier matches: the sibling problems are solved first, answers thrown away"""
    from proof_generation import pattern as P

    probs = [
        (gens.kind_swap(pat), gens.kind_swap(instance)),
        (gens.key_swap(pat), gens.key_swap(instance)),
        (gens.arg_flip(pat), instance),
        (gens.arg_flip(pat), gens.arg_flip(instance)),
        (pat, gens.kind_swap(instance)),
        (gens.kind_swap(pat), instance),
    ]
    # which earlier problem comes first matters to a memo that keeps its first answer: every rotation is explored
    r = ctx.choose(len(probs), 'first earlier problem')
    for a, b in probs[r:] + probs[:r]:
        for f in (lambda: P.match_single(a, b), lambda: P.match([(a, b)])):
            try:
                f()
            except Exception:
                ctx.count('warmup_raised')


def h_sound(ctx: Any, n: int, m: int, prof: str, history: bool = False, twin: bool = False) -> None:
    from proof_generation import pattern as P

    pat = gens.gen(ctx, n, _prof(prof))
    instance = gens.gen_upto(ctx, m, _prof('inst'))
    seed: dict = {}
    if ctx.choose(2, 'seed'):
        seed = {ctx.choose(2, 'seedkey'): gens.gen_upto(ctx, 1, _prof('val'))}
    seed_copy = dict(seed)
    if history:
        _warm_matches(ctx, pat, instance)
    res = P.match_single(pat, instance, dict(seed))
    ctx.count('reached')
    ctx.sample({'pattern': repr(pat), 'instance': repr(instance), 'seed': repr(seed)})
    if twin:
        ctx.violation('TWIN')
    _check_sound(ctx, pat, instance, seed_copy, res, 'match_single')


def h_complete(ctx: Any, n: int, m: int, prof: str, history: bool = False, twin: bool = False) -> None:
    from proof_generation import pattern as P

    pr = _prof(prof)
    pat = gens.gen(ctx, n, pr)
    keys = gens.delta_orders(pr.metavars)[ctx.choose(len(gens.delta_orders(pr.metavars)), 'keys')]
    sigma = {k: gens.gen_upto(ctx, m, _prof('val')) for k in keys}
    tinst = O.inst(O.expand(pat), {k: O.expand(v) for k, v in sigma.items()})
    instance = gens.from_term(tinst)
    which = ctx.choose(2, 'form')
    if which == 1:
        instance = pat.instantiate(sigma)
    if history:
        _warm_matches(ctx, pat, instance)
    res = P.match_single(pat, instance)
    ctx.count('reached')
    ctx.sample({'pattern': repr(pat), 'sigma': repr(sigma)})
    if twin:
        ctx.violation('TWIN')
    ctx.check(res is not None, f'C13.match_single.incomplete[{gens.kinds(pat)}]', lambda: f'{pat!r} does not match its instance {instance!r} (sigma={sigma!r})')
    _check_sound(ctx, pat, instance, {}, res, 'match_single')
    # the equation-list entry point, including the empty solution
    res2 = P.match([(pat, instance)])
    ctx.check(res2 is not None, f'C13.match.incomplete[{"empty-solution" if res == {} else "nonempty"}]', lambda: f'match([({pat!r}, {instance!r})]) is None, match_single gives {res!r}')


def h_eqs(ctx: Any, n: int, m: int, twin: bool = False) -> None:
    """two equations sharing metavariables"""
    from proof_generation import pattern as P

    pr = _prof('schem')
    p1 = gens.gen_upto(ctx, n, pr)
    p2 = gens.gen_upto(ctx, n, pr)
    sigma = {k: gens.gen_upto(ctx, m, _prof('val')) for k in range(pr.metavars)}
    ts = {k: O.expand(v) for k, v in sigma.items()}
    i1 = gens.from_term(O.inst(O.expand(p1), ts))
    i2 = gens.from_term(O.inst(O.expand(p2), ts))
    res = P.match([(p1, i1), (p2, i2)])
    ctx.count('reached')
    ctx.sample({'eqs': [repr(p1), repr(p2)], 'sigma': repr(sigma)})
    if twin:
        ctx.violation('TWIN')
    empty = not (O.metavars(O.expand(p1)) | O.metavars(O.expand(p2)))
    ctx.check(res is not None, f'C13.match.incomplete[{"empty-solution" if empty else "nonempty"}]', lambda: f'match([({p1!r},{i1!r}),({p2!r},{i2!r})]) is None')
    for p, i in ((p1, i1), (p2, i2)):
        ctx.check(O.eq(O.inst(O.expand(p), {k: O.expand(v) for k, v in res.items()}), O.expand(i)), 'C13.match.unsound', lambda: f'{res!r}')


def h_respelled(ctx: Any, n: int, twin: bool = False) -> None:
    """completeness when one metavariable has to be bound to two spellings of one pattern (a notation application and
    its expansion are equal): non-linear pattern, pre-supplied binding, second equation"""
    from proof_generation import pattern as P

    p = gens.gen(ctx, n, _prof('arg'))
    ctx.assume('Instantiate' in gens.kinds(p))
    te = O.expand(p)
    pe = gens.from_term(te)
    first, second = (p, pe) if ctx.choose(2, 'spelling met first') == 0 else (pe, p)
    ctx.count('reached')
    ctx.sample({'pattern': repr(p), 'expansion': repr(pe)})
    if twin:
        ctx.violation('TWIN')
    r1 = P.match_single(P.Implies(P.MetaVar(0), P.MetaVar(0)), P.Implies(first, second))
    ctx.check(r1 is not None and O.eq(O.expand(r1[0]), te), 'C13.match_single.incomplete[respelled repeated metavariable]', lambda: f'phi0 -> phi0 against {first!r} -> {second!r}: {r1!r}')
    r2 = P.match_single(P.MetaVar(0), second, {0: first})
    ctx.check(r2 is not None and O.eq(O.expand(r2[0]), te), 'C13.match_single.incomplete[respelled pre-supplied binding]', lambda: f'phi0 against {second!r} with phi0 := {first!r}: {r2!r}')
    r3 = P.match([(P.MetaVar(0), first), (P.Implies(P.MetaVar(0), P.MetaVar(1)), P.Implies(second, first))])
    ctx.check(r3 is not None and O.eq(O.expand(r3[0]), te), 'C13.match.incomplete[respelled binding carried between equations]', lambda: f'{first!r} / {second!r}: {r3!r}')


def h_eqs_sound(ctx: Any, n: int, m: int, twin: bool = False) -> None:
    """arbitrary systems of two equations (solvable or not, sides may be equal, may share metavariables):
    whatever match() returns solves every equation"""
    from proof_generation import pattern as P

    pr = _prof('eq_p')
    p1 = gens.gen_upto(ctx, n, pr)
    p2 = gens.gen_upto(ctx, n, pr)
    form = ctx.choose(2, 'first instance')
    i1 = p1 if form == 0 else gens.gen_upto(ctx, m, _prof('eq_i'))
    i2 = gens.gen_upto(ctx, m, _prof('eq_i'))
    order = ctx.choose(2, 'order')
    eqs = [(p1, i1), (p2, i2)] if order == 0 else [(p2, i2), (p1, i1)]
    res = P.match(list(eqs))
    ctx.count('reached')
    ctx.sample({'equations': [(repr(a), repr(b)) for a, b in eqs]})
    if twin:
        ctx.violation('TWIN')
    if res is None:
        ctx.count('no_solution')
        return
    ctx.count('solved')
    for p, i in eqs:
        ctx.check(O.eq(O.inst(O.expand(p), {k: O.expand(v) for k, v in res.items()}), O.expand(i)), 'C13.match.unsound', lambda: f'match({eqs!r}) = {res!r} does not solve ({p!r}, {i!r})')


def _notations() -> list:
    from proof_generation import pattern as P
    from proof_generation.proofs import definedness as D
    from proof_generation.proofs import kore as K
    from proof_generation.proofs import substitution as S

    L = [P.bot, P.neg, P.top, P._and, P._or, P.equiv, D.ceil, D.floor, D.subset, D.equals, D.functional]
    L += list(K.KORE_NOTATIONS)
    L += [S.forall(0), S.forall(3), K.sorted_exists(0), K.sorted_exists(2), K.kore_exists(1)]
    L += [K.nary_app(P.Symbol('f'), 0), K.nary_app(P.Symbol('f'), 1), K.nary_app(P.Symbol('f'), 2), K.nary_app(P.Symbol('c'), 3, True)]
    return L


def n_notations() -> int:
    return len(_notations())


def h_notation(ctx: Any, idx: int, m: int, twin: bool = False) -> None:
    nt = _notations()[idx]
    args = [gens.gen_upto(ctx, m, _prof('arg')) for _ in range(nt.arity)]
    if nt.label == 'functional':
        # the definition constrains phi0 (x0 fresh): only constraint-respecting arguments are in scope
        t = O.expand(args[0])
        ctx.assume(not O.has_meta(t) and not O.occurs_free_e(t, 0))
    p = nt(*args)
    got = nt.matches(p)
    ctx.count('reached')
    ctx.sample({'notation': nt.label, 'args': repr(args)})
    if twin:
        ctx.violation('TWIN')
    ctx.check(got is not None, f'C13.notation.matches-own-application[{nt.label}]', lambda: f'{nt.label}{args!r}')
    rebuilt = nt(*got)
    ctx.check(O.eq(O.expand(rebuilt), O.expand(p)) and bool(rebuilt == p), f'C13.notation.rebuild[{nt.label}]', lambda: f'{nt.label}{args!r} -> {got!r}')
    # assert_matches must agree with matches (a 0-ary notation has the empty tuple as its only solution)
    try:
        am = nt.assert_matches(p)
        ok = len(am) == nt.arity
    except AssertionError:
        ok = False
    ctx.check(ok, f'C13.notation.assert_matches[{nt.label}]', lambda: f'assert_matches raises on {nt.label}{args!r} although matches() = {got!r}')
    # on the fully expanded form as well
    pe = gens.from_term(O.expand(p))
    got2 = nt.matches(pe)
    ctx.check(got2 is not None and O.eq(O.expand(nt(*got2)), O.expand(p)), f'C13.notation.matches-expansion[{nt.label}]', lambda: f'{nt.label}{args!r} expanded: {got2!r}')


def h_nary(ctx: Any, n: int, m: int, twin: bool = False) -> None:
    """deconstruct_nary_application on n-ary applications built in every way the pattern API allows:
    the notation call, a substitution written in another key order, a partial application completed later,
    and a notation whose head is a metavariable bound to a symbol or to an application"""
    from itertools import permutations

    from frozendict import frozendict
    from proof_generation import pattern as P
    from proof_generation.proofs import kore as K

    sym = P.Symbol('f')
    args = tuple(gens.gen_upto(ctx, m, _prof('arg')) for _ in range(n))
    # arguments that are themselves applications are out of scope: deconstruction is left-nested by definition
    for a in args:
        ctx.assume(P.App.unwrap(a) is None)
    nt = K.nary_app(sym, n, bool(ctx.choose(2, 'cell')))
    variant = ctx.choose(4, 'variant')
    want_sym, want_args = sym, args
    if variant == 0 or n == 0:
        p = nt(*args)
    elif variant == 1:
        perms = list(permutations(range(n)))
        perm = perms[ctx.choose(len(perms), 'key-order')]
        p = P.Instantiate(nt.definition, frozendict({k: args[k] for k in perm}))
    elif variant == 2:
        first = ctx.choose(n, 'first-key')
        # completing the application instantiates metavariables inside the arguments given earlier as well: keep them closed
        for a in args:
            ctx.assume(not O.has_meta(O.expand(a)))
        p = P.Instantiate(nt.definition, frozendict({first: args[first]})).instantiate({k: args[k] for k in range(n) if k != first})
    else:
        # head position is a metavariable: apply(h, a1..an) := ((h a1) ... an)
        body: Any = P.MetaVar(0)
        for i in range(n):
            body = P.App(body, P.MetaVar(i + 1))
        apply_nt = P.Notation('verif-apply', n + 1, body, 'apply')
        if ctx.choose(2, 'head'):
            extra = gens.gen_upto(ctx, 1, _prof('arg'))
            ctx.assume(P.App.unwrap(extra) is None)
            head: Any = P.App(sym, extra)
            want_args = (extra, *args)
        else:
            head = sym
        p = apply_nt(head, *args)
    s, got = K.deconstruct_nary_application(p)
    ctx.count('reached')
    ctx.sample({'n': n, 'variant': variant, 'args': repr(args)})
    if twin:
        ctx.violation('TWIN')
    ok = bool(s == want_sym) and len(got) == len(want_args) and all(O.eq(O.expand(a), O.expand(b)) for a, b in zip(got, want_args))
    ctx.check(ok, f'C13.deconstruct_nary_application[variant={variant}]', lambda: f'{p!r} -> {s!r}, {got!r}; expected {want_sym!r}, {want_args!r}')
    # and the same on the fully expanded pattern
    patches.reset_caches()
    s2, got2 = K.deconstruct_nary_application(gens.from_term(O.expand(p)))
    ok = bool(s2 == want_sym) and len(got2) == len(want_args) and all(O.eq(O.expand(a), O.expand(b)) for a, b in zip(got2, want_args))
    ctx.check(ok, f'C13.deconstruct_nary_application-on-expansion[variant={variant}]', lambda: f'{p!r} expanded -> {s2!r}, {got2!r}')


def levels(tier: str) -> list[dict]:
    M = 'vf.props.c13'
    q = tier == 'quick'
    bud = 50 if q else 600
    L: list[dict] = []
    for n in ([1, 2, 3] if q else [1, 2, 3, 4]):
        L.append(dict(label=f'sound/schem/n={n},inst<={n+1 if q else n+1}', module=M, fn='h_sound', kwargs=dict(n=n, m=min(n + 1, 4), prof='schem'), budget_s=bud, required=n <= 2))
    for n in ([1, 2, 3] if q else [1, 2, 3, 4]):
        L.append(dict(label=f'sound/notation/n={n}', module=M, fn='h_sound', kwargs=dict(n=n, m=min(n + 2, 4), prof='schem_nt'), budget_s=bud, required=n <= 2))
    for n in ([1, 2, 3] if q else [1, 2, 3, 4]):
        L.append(dict(label=f'complete/schem/n={n},val<=2', module=M, fn='h_complete', kwargs=dict(n=n, m=2, prof='schem'), budget_s=bud, required=n <= 3))
        L.append(dict(label=f'complete/notation/n={n},val<=2', module=M, fn='h_complete', kwargs=dict(n=n, m=2, prof='schem_nt'), budget_s=bud, required=n <= 3))
    for n in ([3, 4] if q else [3, 4, 5]):
        L.append(dict(label=f'complete/partial-instantiate/n={n},val<=1', module=M, fn='h_complete', kwargs=dict(n=n, m=1, prof='schem_raw'), budget_s=bud, required=n <= 4, twin=False))
    for pn, n in ([('schem', 2), ('schem_nt', 2), ('schem_nt', 3), ('schem_raw', 3)] if q else [('schem', 2), ('schem', 3), ('schem_nt', 2), ('schem_nt', 3), ('schem_raw', 3), ('schem_raw', 4)]):
        L.append(dict(label=f'complete-after-sibling-problems/{pn}/n={n},val<=1', module=M, fn='h_complete', kwargs=dict(n=n, m=1, prof=pn, history=True), budget_s=bud, required=True, twin=False))
    for pn, n in ([('schem_raw', 3), ('schem_nt', 2)] if q else [('schem_raw', 3), ('schem_raw', 4), ('schem_nt', 2), ('schem_nt', 3), ('schem', 2)]):
        L.append(dict(label=f'sound-after-sibling-problems/{pn}/n={n},inst<=2', module=M, fn='h_sound', kwargs=dict(n=n, m=2, prof=pn, history=True), budget_s=bud, required=True, twin=False))
    for n in ([2, 3] if q else [2, 3, 4]):
        L.append(dict(label=f'complete/respelled-occurrences/n={n}', module=M, fn='h_respelled', kwargs=dict(n=n), budget_s=bud, required=n <= 3, twin=False))
    L.append(dict(label=f'equations-sound/2 arbitrary eqs,n<=3,inst<=3', module=M, fn='h_eqs_sound', kwargs=dict(n=3, m=3), budget_s=bud, required=True, twin=False))
    L.append(dict(label='equations/2 eqs,n<=2,val<=1', module=M, fn='h_eqs', kwargs=dict(n=2 if q else 3, m=1), budget_s=bud, required=True))
    for i in range(n_notations()):
        ar = _notations()[i].arity
        m = 2 if (q or ar >= 3) else 3
        L.append(dict(label=f'notation[{i}:{_notations()[i].label}]/args<={m}', module=M, fn='h_notation', kwargs=dict(idx=i, m=m), budget_s=bud, required=True, twin=(i in (1, 3))))
    for n in (0, 1, 2, 3):
        L.append(dict(label=f'nary/n={n}', module=M, fn='h_nary', kwargs=dict(n=n, m=2), budget_s=bud, required=True, twin=(n == 2)))
    return L


def run(tier: str) -> dict:
    return common.run_levels(common.tiered(levels, tier))
