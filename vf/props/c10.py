"""C10 Every derived rule proves exactly its advertised schema."""
from __future__ import annotations

import inspect
import re
from itertools import permutations
from typing import Any

from .. import gens, oracle as O, patches, refm
from ..gens import Prof
from . import common

ID = 'C10'
FUNCTIONS = [
    'proofs/propositional.py and tautology.py: every public method of Propositional/Tautology that carries a schema docstring (found by inspect at run time)',
    'proof.py: ProofExp.modus_ponens/dynamic_inst/load_axiom/prop1-3, ProofThunk.__call__; stateful_interpreter.py (replay)',
]
ASSUMPTIONS = [
    'the advertised schema is parsed from the docstring (grammar: ~ > /\\ > \\/ > -> (right assoc.) > <->; bot, top, T; single letters; premises above a dashed line, separated by two or more blanks, bound to the ProofThunk parameters in order)',
    'Pattern parameters are bound to the schema letter of the same name, the others by the first bijection that reproduces the schema on a concrete probe; a method fails if no bijection does',
    'premise thunks are load_axiom of the instantiated premise schema (written with the notation objects) in a scratch Tautology module',
    'ids are mathematical integers in 0..255; id-blind structural hash installed on the Pattern dataclasses',
]
OUTSIDE = 'methods without a parseable schema (listed in the evidence as not covered); argument patterns above the size bound; nested compositions beyond what the lemmas do internally'
EXPLANATION = (
    'each library entry point is executed symbolically on argument patterns of every kind (element/set variables, symbols, constrained metavariables, binders, '
    'applications, notation) with symbolic ids; the advertised conclusion, the conclusion obtained by replaying the proof on a stateful interpreter and the '
    'docstring schema instantiated by an independent oracle must coincide on every path; the replay may only use prop1-3, modus ponens, instantiate and loads of declared axioms'
)


# ---------------------------------------------------------------------------
# docstring grammar

TOK = re.compile(r'\s*(<->|->|/\\|\\/|~|\(|\)|[A-Za-z]+)')


def _tokens(s: str) -> list[str] | None:
    out = []
    i = 0
    s = s.strip()
    while i < len(s):
        m = TOK.match(s, i)
        if not m:
            return None
        out.append(m.group(1))
        i = m.end()
    return out


class _P:
    def __init__(self, toks: list[str]):
        self.t = toks
        self.i = 0

    def peek(self) -> str | None:
        return self.t[self.i] if self.i < len(self.t) else None

    def eat(self) -> str:
        self.i += 1
        return self.t[self.i - 1]

    def iff(self) -> Any:
        l = self.imp()
        while self.peek() == '<->':
            self.eat()
            l = ('iff', l, self.imp())
        return l

    def imp(self) -> Any:
        l = self.or_()
        if self.peek() == '->':
            self.eat()
            return ('imp', l, self.imp())
        return l

    def or_(self) -> Any:
        l = self.and_()
        while self.peek() == '\\/':
            self.eat()
            l = ('or', l, self.and_())
        return l

    def and_(self) -> Any:
        l = self.un()
        while self.peek() == '/\\':
            self.eat()
            l = ('and', l, self.un())
        return l

    def un(self) -> Any:
        t = self.peek()
        if t == '~':
            self.eat()
            return ('not', self.un())
        if t == '(':
            self.eat()
            e = self.iff()
            if self.peek() != ')':
                raise ValueError('expected )')
            self.eat()
            return e
        if t is None or not t.isalpha():
            raise ValueError(f'unexpected {t}')
        self.eat()
        if t == 'bot':
            return ('bot',)
        if t in ('top', 'T'):
            return ('top',)
        if len(t) == 1 and t.islower():
            return ('var', t)
        raise ValueError(f'not a schema atom: {t}')


def parse_formula(s: str) -> Any:
    toks = _tokens(s)
    if not toks:
        return None
    try:
        p = _P(toks)
        e = p.iff()
        if p.peek() is not None:
            return None
        return e
    except ValueError:
        return None


def parse_schema(doc: str | None) -> tuple | None:
    """-> (premises, conclusion) as ASTs, or None if the docstring is not a schema"""
    if not doc:
        return None
    lines = [l.rstrip() for l in doc.strip('\n').split('\n')]
    lines = [l for l in lines if l.strip()]
    if not lines:
        return None
    dash = [i for i, l in enumerate(lines) if re.fullmatch(r'\s*-{3,}\s*', l)]
    if dash:
        d = dash[0]
        prem_text = ' '.join(l.strip() for l in lines[:d])
        concl_text = ' '.join(l.strip() for l in lines[d + 1 :])
        raw = ' '.join(lines[:d])
        parts = [x for x in re.split(r'\s{2,}', raw.strip()) if x]
        prem = [parse_formula(x) for x in parts]
        concl = parse_formula(concl_text)
        if concl is None or any(p is None for p in prem):
            return None
        return prem, concl
    if len(lines) != 1:
        return None
    text = lines[0].split('or, alternatively')[0]
    f = parse_formula(text)
    if f is None:
        return None
    return [], f


def letters(ast: Any, acc: list | None = None) -> list:
    if acc is None:
        acc = []
    if ast[0] == 'var':
        if ast[1] not in acc:
            acc.append(ast[1])
    else:
        for c in ast[1:]:
            if isinstance(c, tuple):
                letters(c, acc)
    return acc


def term(ast: Any, env: dict) -> tuple:
    """schema AST -> oracle term (full expansion)"""
    k = ast[0]
    if k == 'var':
        return env[ast[1]]
    if k == 'bot':
        return refm.BOT
    if k == 'top':
        return refm.neg(refm.BOT)
    if k == 'not':
        return refm.neg(term(ast[1], env))
    if k == 'imp':
        return ('imp', term(ast[1], env), term(ast[2], env))
    if k == 'and':
        return refm.neg(('imp', term(ast[1], env), refm.neg(term(ast[2], env))))
    if k == 'or':
        return ('imp', refm.neg(term(ast[1], env)), term(ast[2], env))
    if k == 'iff':
        a, b = term(ast[1], env), term(ast[2], env)
        return refm.neg(('imp', ('imp', a, b), refm.neg(('imp', b, a))))
    raise TypeError(k)


def repo_pattern(ast: Any, env: dict) -> Any:
    """schema AST -> repo pattern written with the notation objects"""
    from proof_generation import pattern as P

    k = ast[0]
    if k == 'var':
        return env[ast[1]]
    if k == 'bot':
        return P.bot()
    if k == 'top':
        return P.top()
    if k == 'not':
        return P.neg(repo_pattern(ast[1], env))
    if k == 'imp':
        return P.Implies(repo_pattern(ast[1], env), repo_pattern(ast[2], env))
    if k == 'and':
        return P._and(repo_pattern(ast[1], env), repo_pattern(ast[2], env))
    if k == 'or':
        return P._or(repo_pattern(ast[1], env), repo_pattern(ast[2], env))
    if k == 'iff':
        return P.equiv(repo_pattern(ast[1], env), repo_pattern(ast[2], env))
    raise TypeError(k)


# ---------------------------------------------------------------------------
# inventory


def inventory() -> tuple[dict, list]:
    """method name -> dict(schema, thunk_params, pattern_params, letters); and the list of methods not covered"""
    from proof_generation.tautology import Tautology

    covered: dict = {}
    skipped: list = []
    for name, fn in inspect.getmembers(Tautology, inspect.isfunction):
        if name.startswith('_'):
            continue
        if fn.__qualname__.split('.')[0] not in ('Propositional', 'Tautology'):
            continue
        sch = parse_schema(fn.__doc__)
        if sch is None:
            skipped.append(name)
            continue
        sig = inspect.signature(fn)
        tp, pp, other = [], [], []
        for pn, prm in list(sig.parameters.items())[1:]:
            ann = str(prm.annotation)
            if 'ProofThunk' in ann:
                tp.append(pn)
            elif 'Pattern' in ann:
                pp.append(pn)
            else:
                other.append(pn)
        prem, concl = sch
        if other or len(tp) != len(prem):
            skipped.append(name)
            continue
        ls: list = []
        for p in prem:
            letters(p, ls)
        letters(concl, ls)
        covered[name] = {'schema': sch, 'thunks': tp, 'patterns': pp, 'letters': ls}
    return covered, skipped


def candidate_bindings(info: dict) -> list[dict]:
    """param -> letter maps to try, best guess first"""
    pp, ls = info['patterns'], info['letters']
    fixed = {p: p for p in pp if p in ls}
    rest_p = [p for p in pp if p not in fixed]
    rest_l = [l for l in ls if l not in fixed.values()]
    if len(rest_p) > len(rest_l):
        return []
    prem_letters: list = []
    for p in info['schema'][0]:
        letters(p, prem_letters)
    pref = [l for l in rest_l if l not in prem_letters] + [l for l in rest_l if l in prem_letters]
    out = []
    for perm in permutations(pref, len(rest_p)):
        b = dict(fixed)
        b.update(dict(zip(rest_p, perm)))
        out.append(b)
    return out


class Recording:
    """mixin-free recorder built on the real StatefulInterpreter"""

    @staticmethod
    def make(axioms: list) -> Any:
        from proof_generation.interpreter import ExecutionPhase
        from proof_generation.proved import Proved
        from proof_generation.stateful_interpreter import StatefulInterpreter

        class R(StatefulInterpreter):
            forbidden: list = []

            def exists_generalization(self, proved: Any, var: Any) -> Any:
                self.forbidden.append('exists_generalization')
                return super().exists_generalization(proved, var)

            def exists_quantifier(self) -> Any:
                self.forbidden.append('exists_quantifier')
                return super().exists_quantifier()

            def load(self, id: str, term: Any) -> None:
                if not (isinstance(term, Proved) and any(bool(term.conclusion == a) for a in axioms)):
                    self.forbidden.append(f'load of a term that is not a declared axiom: {term!r}')
                super().load(id, term)

        it = R(ExecutionPhase.Proof)
        it.forbidden = []
        it.memory = [Proved(a) for a in axioms]
        return it


_WRAP: list = []


def wrap(pat: Any, depth: int) -> Any:
    """the same pattern under `depth` layers of a transparent (identity) notation"""
    from proof_generation import pattern as P

    if not _WRAP:
        _WRAP.append(P.Notation('verif-identity', 1, P.MetaVar(0), '{0}'))
    for _ in range(depth):
        pat = _WRAP[0](pat)
    return pat


def run_method(name: str, binding: dict, values: dict, wraps: tuple = ()) -> tuple:
    """values: letter -> repo pattern.  Returns (thunk.conc, replayed Proved, forbidden calls, expected oracle term)"""
    from proof_generation.tautology import Tautology

    info = INV[name]
    prem, concl = info['schema']
    t = Tautology()
    thunks = []
    for i, p in enumerate(prem):
        pat = repo_pattern(p, values)
        if i < len(wraps):
            pat = wrap(pat, wraps[i])
        t.add_axiom(pat)
        thunks.append(t.load_axiom(pat))
    kwargs = {pn: values[binding[pn]] for pn in info['patterns']}
    kwargs.update(dict(zip(info['thunks'], thunks)))
    th = getattr(t, name)(**kwargs)
    it = Recording.make(list(t._axioms))
    res = th(it)
    want = term(concl, {l: O.expand(v) for l, v in values.items()})
    return th.conc, res, it.forbidden, want


INV: dict = {}
SKIPPED: list = []
BIND: dict = {}
PROBE_FAIL: dict = {}


def prepare() -> None:
    """inventory + concrete probe that fixes the letter binding of every method"""
    from proof_generation import pattern as P

    if INV:
        return
    inv, skipped = inventory()
    INV.update(inv)
    SKIPPED.extend(skipped)
    for name, info in inv.items():
        vals = {l: P.Symbol(f'L{l}') for l in info['letters']}
        err = None
        for b in candidate_bindings(info):
            try:
                conc, res, forb, want = run_method(name, b, vals)
                if O.eq(O.expand(conc), want):
                    BIND[name] = b
                    break
                err = f'advertises {conc!s} for schema instance {O.show(want)}'
            except Exception as e:  # noqa
                err = f'{type(e).__name__}: {e}'
        if name not in BIND:
            PROBE_FAIL[name] = err or 'no candidate binding (more Pattern parameters than schema letters)'


def setup() -> None:
    patches.install_hash()
    prepare()


def setup_concrete() -> None:
    prepare()


def reset() -> None:
    patches.reset_caches()


PROFS: dict[str, Prof] = {}


def _prof(name: str) -> Prof:
    if not PROFS:
        from proof_generation import pattern as P

        PROFS.update(
            {
                'arg': Prof(symbol=1, metavars=3, mv_cfgs=((0, 0, 0, 0), (1, 0, 0, 0)), app=True, notations=(P.bot, P.neg)),
                'arg_subst': Prof(symbol=1, metavars=2, subst=True, app=False, mu=False, exists=False, implies=False),
                'arg_tiny': Prof(symbol=0, svar=False, metavars=1, app=False, mu=False, exists=False, implies=False),
                'arg_small': Prof(symbol=1, svar=False, metavars=2, mv_cfgs=((0, 0, 0, 0), (1, 0, 0, 0)), app=False, mu=False, exists=False, implies=False, notations=(P.bot,)),
            }
        )
    return PROFS[name]


def h_lemma(ctx: Any, name: str, size: int, prof: str = 'arg', twin: bool = False) -> None:
    info = INV[name]
    b = BIND[name]
    if prof == 'arg_subst':
        # every argument is a pending substitution (element or set variable) on a metavariable
        vals = {l: gens.gen(ctx, 3, _prof(prof)) for l in info['letters']}
    else:
        vals = {l: gens.gen_upto(ctx, size, _prof(prof)) for l in info['letters']}
    # premise conclusions as written, or under two layers of a transparent notation
    w = 2 * ctx.choose(2, 'wrap') if info['schema'][0] else 0
    wraps = tuple(w for _ in info['schema'][0])
    ctx.count('reached')
    ctx.sample({'method': name, 'binding': b, 'letters': {l: repr(v) for l, v in vals.items()}, 'premise_notation_layers': list(wraps)})
    if twin:
        ctx.violation('TWIN')
    try:
        conc, res, forb, want = run_method(name, b, vals, wraps)
    except Exception as e:
        ctx.violation(f'C10.{name}.raises[{type(e).__name__}]', f'{name} with {vals!r} (premise notation layers {wraps}): {type(e).__name__}: {str(e)[:200]}')
    ctx.check(O.eq(O.expand(conc), want), f'C10.{name}.advertised-conclusion-differs-from-schema', lambda: f'{name} with {vals!r}: advertises {conc!r}, schema says {O.show(want)}')
    ctx.check(O.eq(O.expand(res.conclusion), want), f'C10.{name}.replayed-conclusion-differs-from-schema', lambda: f'{name} with {vals!r}: replay proves {res!r}, schema says {O.show(want)}')
    ctx.check(not forb, f'C10.{name}.uses-other-rules', lambda: repr(forb))


def match_schema(ast: Any, t: tuple, env: dict) -> bool:
    """match a schema AST against an oracle term, binding letters (my own matcher, on full expansions)"""
    k = ast[0]
    if k == 'var':
        if ast[1] in env:
            return O.eq(env[ast[1]], t)
        env[ast[1]] = t
        return True
    if k == 'bot':
        return O.eq(t, refm.BOT)
    if k == 'top':
        return O.eq(t, refm.neg(refm.BOT))
    if k == 'not':
        return t[0] == 'imp' and O.eq(t[2], refm.BOT) and match_schema(ast[1], t[1], env)
    if k == 'imp':
        return t[0] == 'imp' and match_schema(ast[1], t[1], env) and match_schema(ast[2], t[2], env)
    if k == 'or':
        return match_schema(('imp', ('not', ast[1]), ast[2]), t, env)
    if k == 'and':
        return match_schema(('not', ('imp', ast[1], ('not', ast[2]))), t, env)
    if k == 'iff':
        return match_schema(('and', ('imp', ast[1], ast[2]), ('imp', ast[2], ast[1])), t, env)
    return False


INNER = ('imp_refl', 'absurd', 'and_l_imp', 'dneg_intro', 'con3', 'or_comm_imp', 'ian')


def h_nested(ctx: Any, outer: str, twin: bool = False) -> None:
    """a derived rule applied to the proof returned by another lemma (not to an axiom)"""
    from proof_generation.tautology import Tautology

    info = INV[outer]
    prem, concl = info['schema']
    b = BIND[outer]
    t = Tautology()
    inner = INNER[ctx.choose(len(INNER), 'inner')]
    iinfo = INV[inner]
    ivals = {l: gens.gen_upto(ctx, 1, _prof('arg_tiny')) for l in iinfo['letters']}
    try:
        th_in = getattr(t, inner)(**{pn: ivals[BIND[inner][pn]] for pn in iinfo['patterns']})
    except Exception:
        ctx.assume(False)
    env: dict = {}
    if not match_schema(prem[0], O.expand(th_in.conc), env):
        ctx.count('inner_conclusion_does_not_fit_the_premise')
        ctx.assume(False)
    # letters not fixed by the premise get fresh arguments
    vals = {l: gens.from_term(env[l]) if l in env else gens.gen_upto(ctx, 1, _prof('arg_tiny')) for l in info['letters']}
    ctx.count('reached')
    ctx.sample({'outer': outer, 'inner': inner, 'inner_conclusion': repr(th_in.conc)})
    if twin:
        ctx.violation('TWIN')
    try:
        kwargs = {pn: vals[b[pn]] for pn in info['patterns']}
        kwargs[info['thunks'][0]] = th_in
        th = getattr(t, outer)(**kwargs)
        it = Recording.make(list(t._axioms))
        res = th(it)
    except Exception as e:
        ctx.violation(f'C10.{outer}.raises-on-lemma-premise[{inner}|{type(e).__name__}]', f'{outer}({inner}{ivals!r}): {type(e).__name__}: {str(e)[:200]}')
    want = term(concl, {l: O.expand(v) for l, v in vals.items()})
    ctx.check(O.eq(O.expand(th.conc), want), f'C10.{outer}.advertised-conclusion-differs-from-schema[nested]', lambda: f'{outer}({inner}{ivals!r}): advertises {th.conc!r}, schema says {O.show(want)}')
    ctx.check(O.eq(O.expand(res.conclusion), want), f'C10.{outer}.replayed-conclusion-differs-from-schema[nested]', lambda: f'{outer}({inner}{ivals!r}): replay proves {res!r}')
    ctx.check(not it.forbidden, f'C10.{outer}.uses-other-rules[nested]', lambda: repr(it.forbidden))


def h_conj_nth(ctx: Any, l: int, size: int, twin: bool = False) -> None:
    """conjunction_implies_nth(term, n, l):  p0 /\\ (p1 /\\ (... /\\ p_{l-1})) -> pn   (docstring with an ellipsis, spelled out here)"""
    from proof_generation import pattern as P
    from proof_generation.tautology import Tautology, foldr_op

    prof = Prof(symbol=0, evar=False, svar=False, mu=False, app=False, exists=False, implies=False, metavars=2, notations=(P._and, P.equiv))
    terms = [gens.gen_upto(ctx, size, prof) for _ in range(l)]
    n = ctx.choose(l, 'n')
    term = foldr_op(P._and, terms)
    ctx.count('reached')
    ctx.sample({'conjuncts': [repr(t) for t in terms], 'n': n})
    if twin:
        ctx.violation('TWIN')
    t = Tautology()
    try:
        th = t.conjunction_implies_nth(term, n, l)
        it = Recording.make(list(t._axioms))
        res = th(it)
    except Exception as e:
        ctx.violation(f'C10.conjunction_implies_nth.raises[{type(e).__name__}]', f'{terms!r} n={n}: {e}')
    want = ('imp', O.expand(term), O.expand(terms[n]))
    ctx.check(O.eq(O.expand(th.conc), want), 'C10.conjunction_implies_nth.advertised-conclusion-differs-from-schema', lambda: f'{terms!r} n={n}: advertises {th.conc!s}')
    ctx.check(O.eq(O.expand(res.conclusion), want), 'C10.conjunction_implies_nth.replayed-conclusion-differs-from-schema', lambda: f'{terms!r} n={n}: replay proves {res!s}')
    ctx.check(not it.forbidden, 'C10.conjunction_implies_nth.uses-other-rules', lambda: repr(it.forbidden))


def levels(tier: str) -> list[dict]:
    prepare()
    M = 'vf.props.c10'
    q = tier == 'quick'
    L: list[dict] = []
    first = True
    for name in sorted(BIND):
        nl = len(INV[name]['letters'])
        if q:
            size, prof = (1, 'arg') if nl <= 2 else (1, 'arg_small')
        else:
            size, prof = (2, 'arg') if nl <= 2 else ((2, 'arg_small') if nl == 3 else (1, 'arg_small'))
        if nl >= 4:
            size, prof = 1, 'arg_small'
        L.append(dict(label=f'{name}/args<={size}/{prof}', module=M, fn='h_lemma', kwargs=dict(name=name, size=size, prof=prof), budget_s=150 if q else 900, required=True, twin=first))
        first = False
    for name in sorted(BIND):
        nl = len(INV[name]['letters'])
        if nl == 1 or (not q and nl == 2):
            L.append(dict(label=f'{name}/arguments-are-pending-substitutions', module=M, fn='h_lemma', kwargs=dict(name=name, size=3, prof='arg_subst'), budget_s=150 if q else 900, required=True, twin=False))
    quick_nested = ('con3_i', 'dni_l_i', 'ant_commutativity', 'imp_to_and', 'a1d', 'con1')
    for name in sorted(BIND):
        if q and name not in quick_nested:
            continue
        if len(INV[name]['thunks']) == 1 and all(i in BIND for i in INNER):
            L.append(dict(label=f'nested/{name}(lemma)', module=M, fn='h_nested', kwargs=dict(outer=name), budget_s=150 if q else 900, required=False, twin=False, novacuity=True))
    for l, size in ([(1, 3), (2, 3), (3, 1)] if q else [(1, 5), (2, 3), (3, 3)]):
        L.append(dict(label=f'conjunction_implies_nth/l={l},conjuncts<={size}', module=M, fn='h_conj_nth', kwargs=dict(l=l, size=size), budget_s=150 if q else 900, required=True, twin=False))
    return L


def run(tier: str) -> dict:
    prepare()
    res = common.run_levels_parallel(common.tiered(levels, tier))
    res['direct_violations'] = [
        {'sig': f'C10.{n}.fails-on-its-advertised-shape', 'path': f'inline: {n} applied to distinct symbols for the letters of its docstring schema', 'detail': e} for n, e in sorted(PROBE_FAIL.items())
    ]
    res['extra'] = {
        'methods_with_parsed_schema': len(INV),
        'methods_checked': sorted(BIND),
        'methods_not_covered_no_parseable_schema': sorted(SKIPPED),
        'letter_bindings': {k: v for k, v in sorted(BIND.items()) if v},
    }
    return res
