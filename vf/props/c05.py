"""C05 The checker implements the documented machine."""
from __future__ import annotations

import time
from typing import Any

from .. import oracle as O, patches, refm, rsbridge, rscheck, symx
from ..rsrt import Panic
from ..paths import REPO
from . import common

ID = 'C05'
FUNCTIONS = [
    'rust/src/lib.rs via rs2py (re-transpiled from the current source on every run): verify, execute_instructions (all arms), Instruction::from, read_u8_vec, pop_stack*, instantiate_in_place/instantiate_internal, apply_esubst, apply_ssubst, e_fresh, s_fresh, positive, negative, well_formed, is_redundant_subst',
    'oracle: vf/refm.py, the machine of docs/proof-language.md',
]
ASSUMPTIONS = [
    'bytes are mathematical integers in 0..255; the checker does no arithmetic on them (ids are compared, lengths count loop iterations)',
    'the transpilation is validated in this run against the rustc-built checker on the shipped proofs, their single-byte mutations/truncations and 2500 generated streams (accept/reject and Debug rendering of stack, memory, claims); every counterexample is replayed on the real binary',
    'a1: memory persists across phases and gamma-Publish appends the axiom to it (the document says "cleared" and "used to initialize" in consecutive sentences, with a TODO)',
    'a2: axiom-schema conclusions are the textbook Prop1-3 and phi[y/x] -> exists x. phi with the variable numbering both implementations share (the document only sketches them)',
    'a3: Generalization is the rule the text names, (phi -> psi), x fresh in psi |- (exists x. phi) -> psi, operand = x (the pseudocode is a copy of Quantifier)',
    'a4: CleanMetaVar <id> (emitted by the serialiser, absent from the document) = MetaVar <id> with five empty lists',
    'a5: InstantiateNotation checks the instantiation against the constraints, like InstantiateSchema (the pseudocode checks the notation against itself)',
    'unspecified and skipped (counted): u1 opcodes listed but never defined (PropagationOr/Exists, PreFixpoint, Existence, Singleton, Frame, Substitution, KnasterTarski); u2 substitution under a binder that the plug mentions; u3 instantiating a metavariable with app_ctx_holes',
]
OUTSIDE = 'streams longer than the byte bounds; more than two simultaneous mutations; the u1-u3 behaviours'
EXPLANATION = (
    'both machines consume the same symbolic byte buffers; opcode decoding, operand reads, list lengths, id comparisons fork under z3, '
    'so every explored path is a feasible class of inputs on which verdict and final state are compared'
)


def setup() -> None:
    rsbridge.mod()


def reset() -> None:
    pass


def setup_concrete() -> None:
    rsbridge.mod()


def _term(e: Any) -> tuple:
    """Term / Entry of the transpiled checker -> ('P'|'T', oracle term with numeric symbols)"""
    n = type(e).__name__
    return ('T' if n.endswith('Proved') else 'P', rsbridge.from_rs(e.f_0, symname={}))


def _run_rs(g: list, c: list, p: list) -> tuple:
    m = rsbridge.mod()
    try:
        m.verify(list(g), list(c), list(p))
    except Panic as e:
        return ('reject', e.site, None)
    except RecursionError:
        return ('reject', 'recursion', None)
    # final state of the three phases (verify keeps it local); if verify does something else between
    # the phases than clearing the stack, this reconstruction can fail: then only the verdict is compared
    claims: list = []
    memory: list = []
    stack: list = []
    try:
        m.execute_instructions(list(g), stack, memory, claims, m.ExecutionPhase__Gamma)
        del stack[:]
        m.execute_instructions(list(c), stack, memory, claims, m.ExecutionPhase__Claim)
        del stack[:]
        m.execute_instructions(list(p), stack, memory, claims, m.ExecutionPhase__Proof)
    except Panic:
        return ('accept', 'state-not-reconstructible', None)
    return ('accept', '', ([_term(x) for x in stack], [_term(x) for x in memory], [rsbridge.from_rs(x, symname={}) for x in claims]))


def _run_doc(g: list, c: list, p: list) -> tuple:
    try:
        m = refm.verify(g, c, p)
    except refm.Reject as e:
        return ('reject', str(e), None)
    except refm.Unspecified as e:
        return ('unspecified', str(e).split(':')[0], None)
    return ('accept', '', (m.stack, m.memory, m.claims))


def _same_state(a: tuple, b: tuple) -> bool:
    (s1, m1, c1), (s2, m2, c2) = a, b
    if len(s1) != len(s2) or len(m1) != len(m2) or len(c1) != len(c2):
        return False
    for x, y in list(zip(s1, s2)) + list(zip(m1, m2)):
        if x[0] != y[0] or not O.eq(x[1], y[1]):
            return False
    for x, y in zip(c1, c2):
        if not O.eq(x, y):
            return False
    return True


def _compare(ctx: Any, g: list, c: list, p: list, twin: bool, what: str) -> None:
    rs = _run_rs(g, c, p)
    doc = _run_doc(g, c, p)
    ctx.count('reached')
    if doc[0] == 'unspecified':
        ctx.count('unspecified_skipped')
        ctx.count('unspecified:' + doc[1])
        if not twin:
            return
    if rs[0] == 'accept' and doc[0] == 'accept':
        ctx.count('both_accept')
    ctx.sample({'gamma': repr(g), 'claim': repr(c), 'proof': repr(p), 'checker': rs[0], 'document': doc[0]})
    if twin:
        ctx.violation('TWIN')
    if not ctx.symbolic:
        # replay: the verdict of the transpilation must be the verdict of the real binary
        real = rscheck.real_verdict(rscheck.real_binary(), g, c, p)
        if real != (rs[0] == 'accept'):
            raise symx.HarnessError(f'transpiled checker says {rs[0]}, real binary says {real}')
    ctx.check(rs[0] == doc[0], f'C05.{what}.verdict[checker={rs[0]}:{rs[1]}|document={doc[0]}:{doc[1]}]', lambda: f'gamma={g!r} claim={c!r} proof={p!r}')
    if rs[0] == 'accept':
        ctx.check(rs[2] is not None, f'C05.{what}.accepts-but-phases-do-not-replay', lambda: f'gamma={g!r} claim={c!r} proof={p!r}: verify accepts, executing the three phases with a cleared stack panics')
        ctx.check(_same_state(rs[2], doc[2]), f'C05.{what}.final-state', lambda: f'gamma={g!r} claim={c!r} proof={p!r}: checker {rs[2]!r} document {doc[2]!r}')


def h_short(ctx: Any, ng: int, nc: int, np_: int, twin: bool = False) -> None:
    """three buffers of symbolic bytes"""
    g = [ctx.int('g') for _ in range(ng)]
    c = [ctx.int('c') for _ in range(nc)]
    p = [ctx.int('p') for _ in range(np_)]
    _compare(ctx, g, c, p, twin, 'short')


def _programs() -> list[tuple]:
    out = []
    for base in ('small_theory', 'substitution', 'propositional'):
        out.append(tuple(list(open(f'{REPO}/proofs/{base}.ml-{s}', 'rb').read()) for s in ('gamma', 'claim', 'proof')))
    O_ = refm.opcodes()
    # mini programs exercising metavariable constraints, substitutions, memory and all three publishes
    mv = [O_['MetaVar'], 0, 1, 1, 0, 0, 0, 0]  # phi0 with e_fresh [1]
    out.append(([O_['EVar'], 0, *mv, O_['ESubst'], 0, O_['Save'], O_['Publish']], [O_['Load'], 0, O_['Publish']], [O_['Load'], 1, O_['Publish']]))
    out.append(
        (
            [],
            [O_['CleanMetaVar'], 0, O_['CleanMetaVar'], 0, O_['Implies'], O_['Publish']],
            [O_['CleanMetaVar'], 0, O_['Save'], O_['Load'], 0, O_['Load'], 0, O_['Implies'], O_['Load'], 0, O_['Prop2'], O_['Instantiate'], 3, 0, 1, 2, O_['Pop'], O_['Pop'],
             O_['CleanMetaVar'], 0, O_['CleanMetaVar'], 0, O_['Prop1'], O_['Instantiate'], 1, 1, O_['Pop'], O_['Pop'], O_['CleanMetaVar'], 0, O_['CleanMetaVar'], 0, O_['Implies'], O_['Pop']],
        )
    )
    out.append(([O_['SVar'], 0, O_['Mu'], 0, O_['EVar'], 2, O_['Exists'], 2, O_['Implies'], O_['Publish']], [O_['Symbol'], 0, O_['Symbol'], 1, O_['App'], O_['Publish']], [O_['Symbol'], 0]))
    out.append(([O_['MetaVar'], 0, 0, 0, 1, 3, 0, 1, 5], [O_['MetaVar'], 1, 1, 2, 0, 0, 0, 0], [O_['CleanMetaVar'], 1, O_['MetaVar'], 0, 0, 1, 4, 0, 0, 2, 6, 7]))
    out.append(([], [], [O_['SVar'], 1, O_['Mu'], 1, O_['Quantifier'], O_['Instantiate'], 1, 0, O_['SVar'], 1, O_['EVar'], 0, O_['App'], O_['Mu'], 1, O_['SVar'], 1, O_['CleanMetaVar'], 0, O_['ESubst'], 0, O_['Instantiate'], 1, 0]))
    out.append(([], [], [O_['EVar'], 1, O_['Quantifier'], O_['Instantiate'], 1, 0, O_['Prop1'], O_['Generalization'], 3]))
    # the same claim twice: the claim list is a stack, every entry needs its own proof-phase Publish
    out.append(([O_['Symbol'], 0, O_['Publish']], [O_['Symbol'], 0, O_['Publish'], O_['Symbol'], 0, O_['Publish']], [O_['Load'], 0, O_['Publish'], O_['Load'], 0, O_['Publish']]))
    # mu over a pending element substitution: the body's polarity depends on the plug being s_fresh
    out.append(([], [], [O_['MetaVar'], 1, 0, 1, 0, 0, 0, 0, O_['MetaVar'], 0, 0, 0, 1, 0, 0, 0, O_['ESubst'], 1, O_['Mu'], 0]))
    # an inner mu re-binding the outer binder's set variable on the left of an implication: the shadowed occurrence is not a negative one
    out.append(([], [], [O_['SVar'], 0, O_['Mu'], 0, O_['SVar'], 0, O_['Mu'], 0, O_['Implies'], O_['Mu'], 0]))
    return out


def n_programs() -> int:
    return len(_programs())


def h_mutate(ctx: Any, prog: int, k: int, window: int = 8, twin: bool = False) -> None:
    """a valid program with k positions (within a window) replaced by symbolic bytes, or truncated"""
    g, c, p = [list(x) for x in _programs()[prog]]
    bufs = [g, c, p]
    total = sum(len(b) for b in bufs)
    pos = ctx.choose(total, 'position')
    mode = ctx.choose(2, 'mode') if k == 1 else 0

    def locate(q: int) -> tuple:
        for bi, b in enumerate(bufs):
            if q < len(b):
                return bi, q
            q -= len(b)
        return None, None

    bi, off = locate(pos)
    if mode == 1:
        del bufs[bi][off:]
    else:
        bufs[bi][off] = ctx.int('m')
        if k == 2:
            d = 1 + ctx.choose(window - 1, 'second')
            ctx.assume(off + d < len(bufs[bi]))
            bufs[bi][off + d] = ctx.int('m')
    _compare(ctx, bufs[0], bufs[1], bufs[2], twin, 'mutation')


def validation() -> dict:
    """translation validation of rs2py against the real checker, run once per check"""
    t0 = time.time()
    exe = rscheck.batch_binary()
    res = rscheck.validate(rsbridge.mod(), exe)
    res['wall_s'] = round(time.time() - t0, 1)
    return res


def levels(tier: str) -> list[dict]:
    M = 'vf.props.c05'
    q = tier == 'quick'
    L: list[dict] = []
    bud = 80 if q else 1500
    for np_ in ([1, 2, 3] if q else [1, 2, 3, 4, 5, 6]):
        L.append(dict(label=f'short/proof-bytes={np_}', module=M, fn='h_short', kwargs=dict(ng=0, nc=0, np_=np_), budget_s=bud, required=np_ <= 3, twin=(np_ == 2)))
    for ng, nc, np_ in ([(2, 0, 2), (0, 2, 1)] if q else [(2, 0, 2), (0, 2, 1), (3, 0, 2), (0, 3, 1), (3, 3, 1), (3, 0, 3), (3, 3, 2), (4, 0, 3)]):
        L.append(dict(label=f'short/gamma={ng},claim={nc},proof={np_}', module=M, fn='h_short', kwargs=dict(ng=ng, nc=nc, np_=np_), budget_s=bud, required=False, twin=False))
    for i in range(n_programs()):
        if q and i == 2:
            continue
        L.append(dict(label=f'mutate1/program[{i}]', module=M, fn='h_mutate', kwargs=dict(prog=i, k=1), budget_s=bud, required=(i != 2), twin=(i == 0)))
    if not q:
        for i in (0, 3, 4, 5, 6):
            L.append(dict(label=f'mutate2/program[{i}]/window=8', module=M, fn='h_mutate', kwargs=dict(prog=i, k=2), budget_s=bud, required=False, twin=False))
    return L


def run(tier: str) -> dict:
    try:
        val = validation()
    except Exception as e:  # rustc failure, unsupported construct, ...
        return {'levels': [], 'inconclusive': [f'translation validation could not run: {e}'], 'errors': []}
    if val['mismatches']:
        return {
            'levels': [],
            'errors': [f"harness-error: transpiled and real checker disagree on {len(val['mismatches'])} of {val['streams']} streams, first: {val['mismatches'][0]}"],
        }
    res = common.run_levels(common.tiered(levels, tier))
    res['validated_traces'] = res.get('validated_traces', 0) + val['streams']
    res['extra'] = {'translation_validation': {k: v for k, v in val.items() if k != 'mismatches'}}
    return res
