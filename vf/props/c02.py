"""C02 Every proof the toolkit generates is accepted by the checker."""
from __future__ import annotations

import os
import tempfile
from typing import Any

from .. import callseq, gens, oracle as O, patches, refm, rsbridge, rscheck, symx
from ..rsrt import Panic
from . import common, c03, c04, c10

ID = 'C02'
FUNCTIONS = [
    'serializing_interpreter.py / stateful_interpreter.py / basic_interpreter.py: every call of the DSL (symbolic call sequences)',
    'proof.py: ProofExp.serialize with and without optimisation (CountingInterpreter, MemoizingInterpreter), execute_full',
    'rust/src/lib.rs via rs2py: verify / execute_instructions on the emitted (symbolic) streams; the rustc-built binary on concrete modules',
    'proofs/propositional.py, tautology.py (library lemmas as modules), proofs/small_theory.py, substitution.py, propositional.py (shipped modules)',
]
ASSUMPTIONS = [
    'ids are mathematical integers in 0..255; bytes() shadowed; id-blind pattern hash; in-memory sinks',
    'acceptance on symbolic streams is decided by the transpiled checker (validated against the real binary in C05 on the same tree); concrete modules are run on the real binary',
    'library lemmas and prover proofs are serialised with concrete ids (a lemma run costs up to seconds); these runs are concrete tests through the real checker, reported as such',
]
OUTSIDE = 'call sequences longer than the bound; lemma arguments above one node; prover proofs above the formula bound; Kore/Metamath pipelines (C16, C20)'
EXPLANATION = (
    'whatever the Python toolkit accepts and serialises is handed to the checker: symbolic call sequences and generated modules (ids symbolic, both optimise settings) '
    'to the transpiled checker under z3, library lemmas, shipped modules and prover proofs as concrete files to the rustc-built binary'
)


def setup() -> None:
    patches.install_hash()
    patches.shadow_bytes(True)
    rsbridge.mod()


def setup_concrete() -> None:
    rsbridge.mod()


def reset() -> None:
    patches.reset_caches()


def checker_prefix(it: Any) -> None:
    """run the transpiled checker on what has been emitted so far; raises Panic if it rejects"""
    from proof_generation.interpreter import ExecutionPhase

    m = rsbridge.mod()
    g, c, p = callseq.streams(it)
    stack: list = []
    memory: list = []
    claims: list = []
    m.execute_instructions(list(g), stack, memory, claims, m.ExecutionPhase__Gamma)
    if it.phase != ExecutionPhase.Gamma:
        del stack[:]
        m.execute_instructions(list(c), stack, memory, claims, m.ExecutionPhase__Claim)
    if it.phase == ExecutionPhase.Proof:
        del stack[:]
        m.execute_instructions(list(p), stack, memory, claims, m.ExecutionPhase__Proof)


def _tracked_term_verdict(it: Any) -> str:
    """is the term the toolkit's own tracker holds on top of its stack well-formed by the document?  It is re-encoded
    canonically from the tracker's object (not from the emitted bytes) and built by the documented machine.  The known
    findings of the D10 family are exactly the rejections in which it is not."""
    from . import c01

    if not it.stack:
        return 'no tracked term'
    kind, t = callseq.entry_term(it.stack[-1], dict(it._symbol_identifiers))
    try:
        m = refm.Machine()
        m.run(c01.encode(t), 'gamma')
        return 'tracked term well-formed'
    except refm.Reject:
        return 'tracked term ill-formed by the document'
    except refm.Unspecified:
        return 'tracked term unspecified by the document'


def h_seq(ctx: Any, alphabet: str, steps: int, phase: str, twin: bool = False) -> None:
    it = c04._prelude(ctx, phase)
    alpha = callseq.ALPHABETS[alphabet]
    log: list = []
    n = 1 + ctx.choose(steps, 'len') if not twin else steps
    for _ in range(n):
        adm = callseq.admissible(it, alpha)
        if not adm:
            break
        call = adm[ctx.choose(len(adm), 'call')]
        try:
            d = callseq.step(ctx, it, call)
        except Exception:
            ctx.count('toolkit_raised')
            return
        log.append(d)
        ctx.count('calls_checked')
        try:
            checker_prefix(it)
        except Panic as e:
            msg = (e.msg or e.site).split('{')[0].strip()
            if call in ('mu', 'metavar', 'esubst', 'ssubst', 'lookalike'):
                msg += '|' + _tracked_term_verdict(it)
            ctx.violation(f'C02.{call}.checker-rejects[{msg}]', f'calls {log!r}: the toolkit accepted and serialised them, the checker panics: {e}')
        if call == 'publish' and it.stack:
            it.stack.pop()  # re-synchronise the tracker (C04 K-C04-publish-keeps-term) so that later calls stay meaningful
    ctx.count('reached')
    ctx.sample({'phase': phase, 'calls': log})
    if twin:
        ctx.violation('TWIN')


def h_module(ctx: Any, shape: int, nax: int, size: int, prof: str = 'ax', twin: bool = False) -> None:
    main, order, claims = c03.build_modules(ctx, shape, nax, prof, 2, size)
    ctx.count('reached')
    ctx.sample({'axioms': [repr(a) for a in order], 'claims': [repr(c) for c in claims]})
    if twin:
        ctx.violation('TWIN')
    m = rsbridge.mod()
    for opt in (False, True):
        try:
            it = c03.serialize(main, opt)
        except Exception:
            ctx.count('toolkit_raised')
            continue
        g, c, p = callseq.streams(it)
        try:
            m.verify(list(g), list(c), list(p))
            ctx.count('accepted')
        except Panic as e:
            msg = (e.msg or e.site).split('{')[0].strip()
            ctx.violation(f'C02.module.checker-rejects[optimize={opt}|{msg}]', f'axioms {order!r} claims {claims!r}: {e}')


PROFS: dict = {}


def _prof(name: str) -> Any:
    from ..gens import Prof

    if not PROFS:
        from proof_generation import pattern as P

        PROFS.update(
            {
                'ax': Prof(symbol=1, svar=False, mu=False, app=False, metavars=2, notations=(P.bot, P.neg)),
                'leaf': Prof(symbol=1, svar=False, mu=False, app=False, exists=False, implies=False, metavars=2),
                'ax_subst': Prof(symbol=1, mu=False, app=False, metavars=2, subst=True),
            }
        )
    return PROFS[name]


def h_rules(ctx: Any, rule: str, n: int, prof: str = 'ax', twin: bool = False) -> None:
    """a module whose single proof is one rule applied to axioms / axiom schemas; its claim is the conclusion the toolkit advertises"""
    from proof_generation import pattern as P
    from proof_generation.proof import ProofExp

    pe = ProofExp()
    try:
        if rule == 'gen':
            sp = gens._splits(n - 1, 2)
            a, b = sp[ctx.choose(len(sp), 'split')]
            ax = P.Implies(gens.gen(ctx, a, _prof('ax')), gens.gen(ctx, b, _prof('ax')))
            pe.add_axiom(ax)
            th = pe.exists_generalization(pe.load_axiom(ax), P.EVar(ctx.int('x')))
        elif rule == 'mp':
            sp = gens._splits(n - 1, 2)
            a, b = sp[ctx.choose(len(sp), 'split')]
            ax = P.Implies(gens.gen(ctx, a, _prof('ax')), gens.gen(ctx, b, _prof('ax')))
            ax2 = gens.from_term(gens.fresh_copy(ctx, O.expand(ax.left), keep_mv=True))
            pe.add_axiom(ax)
            pe.add_axiom(ax2)
            th = pe.modus_ponens(pe.load_axiom(ax), pe.load_axiom(ax2))
        else:
            bases = ['prop1', 'prop2', 'axiom']
            base = bases[ctx.choose(len(bases), 'base')] if prof == 'ax' else 'axiom'
            if base == 'axiom':
                ax = gens.gen(ctx, n, _prof(prof))
                pe.add_axiom(ax)
                bt = pe.load_axiom(ax)
            else:
                bt = getattr(pe, base)()
            orders = [o for o in gens.delta_orders(3) if 1 <= len(o) <= 2]
            keys = orders[ctx.choose(len(orders), 'keys')]
            delta = {k: gens.gen_upto(ctx, 1, _prof('leaf')) for k in keys}
            th = pe.dynamic_inst(bt, delta) if rule == 'dyninst' else pe.instantiate(bt, delta)
        pe.add_claim(th.conc)
        pe.add_proof_expression(th)
    except Exception:
        ctx.count('toolkit_refused_at_construction')
        ctx.assume(False)
    ctx.count('reached')
    ctx.sample({'rule': rule, 'axioms': [repr(a) for a in pe._axioms], 'claim': repr(th.conc)})
    if twin:
        ctx.violation('TWIN')
    m = rsbridge.mod()
    for opt in (False, True):
        try:
            it = c03.serialize(pe, opt)
        except Exception:
            ctx.count('toolkit_raised')
            continue
        g, c, p = callseq.streams(it)
        try:
            m.verify(list(g), list(c), list(p))
            ctx.count('accepted')
        except Panic as e:
            msg = (e.msg or e.site).split('{')[0].strip()
            ctx.violation(f'C02.rule.{rule}.checker-rejects[optimize={opt}|{msg}]', f'axioms {pe._axioms!r} claim {th.conc!r}: {e}')


def h_capture(ctx: Any, kind: str, twin: bool = False) -> None:
    """a pending substitution whose resolution at instantiation passes under a binder: the toolkit resolves it
    without any capture check, the checker asserts capture-freedom"""
    from proof_generation import pattern as P

    it = c04._prelude(ctx, 'gamma')
    a, b, x, y = ctx.int('a'), ctx.int('b'), ctx.int('x'), ctx.int('y')
    log = []
    # the binder inside the plug: of the kind that can capture the substituted-in variable, or of the other kind
    # (exists b under a set-variable substitution, mu B under an element-variable substitution: never a capture)
    other = ctx.choose(2, 'binder kind') == 1
    try:
        if kind == 'e':
            plug = it.mu(b, it.svar(b)) if other else it.exists(b, it.evar(a))  # mu B. B  /  exists b. a
            if other:
                plug = it.implies(plug, it.evar(a))
            inner = it.evar(y)
            mv = it.metavar(0)
            target = it.esubst(x, mv, inner)  # phi0[y/x]
            t_target, t_plug = ('es', ('mv', 0, (), (), (), (), ()), x, ('ev', y)), O.expand(plug)
        else:
            plug = it.exists(b, it.svar(a)) if other else it.mu(b, it.svar(a))  # exists b. A  /  mu B. A
            inner = it.svar(y)
            mv = it.metavar(0)
            target = it.ssubst(x, mv, inner)  # phi0[Y/X]
            t_target, t_plug = ('ss', ('mv', 0, (), (), (), (), ()), x, ('sv', y)), O.expand(plug)
        log.append(f'target {target!r}, phi0 := {plug!r}')
        checker_prefix(it)
        it.instantiate_pattern(target, {0: plug})
    except Panic:
        ctx.count('earlier_step_rejected')
        ctx.assume(False)
    except Exception:
        ctx.count('toolkit_raised')
        return
    ctx.count('reached')
    ctx.sample({'kind': kind, 'calls': log})
    if twin:
        ctx.violation('TWIN')
    # what the textbook says about this resolution: the substituted-in variable y against the binder b of the value
    if other or not bool(y == b):
        verdict = 'the plug mentions no binder of its kind'
    elif bool(a == x):
        verdict = 'capturing by the textbook'
    else:
        verdict = 'conservative: the plug mentions a passed binder, the variable does not occur below it'
    try:
        checker_prefix(it)
        ctx.count('accepted')
    except Panic as e:
        msg = (e.msg or e.site).split('{')[0].strip()
        ctx.violation(f'C02.instantiate_pattern.checker-rejects[{msg}|{verdict}]', f'{log!r}: the toolkit resolved the pending substitution, the checker panics: {e}')


# -- concrete modules through the real binary ---------------------------------------------------


def _files(pe: Any, optimize: bool) -> tuple:
    import io

    from proof_generation.claim import Claim
    from proof_generation.counting_interpreter import CountingInterpreter
    from proof_generation.interpreter import ExecutionPhase
    from proof_generation.optimizing_interpreters import MemoizingInterpreter
    from proof_generation.serializing_interpreter import SerializingInterpreter

    outs = [io.BytesIO(), io.BytesIO(), io.BytesIO()]
    keep = []
    for o in outs:
        o.close = lambda: None  # type: ignore[method-assign]
    claims = [Claim(c) for c in pe._claims]
    ser = SerializingInterpreter(ExecutionPhase.Gamma, outs[0], claims, outs[1], outs[2])
    if optimize:
        an = CountingInterpreter(ExecutionPhase.Gamma, claims)
        pe.execute_full(an)
        pe.execute_full(MemoizingInterpreter(ser, an.finalize()))
    else:
        pe.execute_full(ser)
    return tuple(list(o.getvalue()) for o in outs)


def _concrete_task(task: tuple) -> tuple:
    """one concrete module (by description) through the real serialiser and the real binary, both optimise settings"""
    from proof_generation import pattern as P
    from proof_generation.proofs.propositional import Propositional
    from proof_generation.proofs.small_theory import SmallTheory
    from proof_generation.proofs.substitution import Substitution
    from proof_generation.tautology import Tautology

    kind, label, arg = task
    exe = rscheck.real_binary()
    viol: list = []
    stats = {'modules': 0, 'accepted': 0, 'toolkit_refused': 0}
    pool = [P.EVar(0), P.EVar(1), P.Symbol('s'), P.MetaVar(0), P.MetaVar(1), P.bot()]

    def build() -> Any:
        if kind == 'shipped':
            return {'Propositional': Propositional, 'SmallTheory': SmallTheory, 'Substitution': Substitution}[arg]()
        t = Tautology()
        t._claims = []
        t._proof_expressions = []
        if kind == 'lemma':
            name, idx = arg
            info = c10.INV[name]
            vals = {l: pool[i] for l, i in zip(info['letters'], idx)}
            thunks = []
            for pr in info['schema'][0]:
                pat = c10.repo_pattern(pr, vals)
                t.add_axiom(pat)
                thunks.append(t.load_axiom(pat))
            kw = {pn: vals[c10.BIND[name][pn]] for pn in info['patterns']}
            kw.update(dict(zip(info['thunks'], thunks)))
            th = getattr(t, name)(**kw)
        else:
            forms = [P.Implies(P.MetaVar(0), P.MetaVar(0)), P._or(P.MetaVar(0), P.neg(P.MetaVar(0))), P.neg(P._and(P.MetaVar(0), P.neg(P.MetaVar(0)))), P.Implies(P._and(P.MetaVar(0), P.MetaVar(1)), P.MetaVar(0)), P.Implies(P.MetaVar(0), P._or(P.MetaVar(1), P.MetaVar(0)))]
            res = t.prove_tautology(forms[arg])
            assert res is not None and res[0]
            th = res[1]
        t.add_claim(th.conc)
        t.add_proof_expression(th)
        return t

    for opt in (False, True):
        try:
            g, c, p = _files(build(), opt)
        except Exception:
            stats['toolkit_refused'] += 1
            continue
        stats['modules'] += 1
        if rscheck.real_verdict(exe, g, c, p):
            stats['accepted'] += 1
        else:
            d = os.path.join(os.path.dirname(os.path.dirname(os.path.dirname(os.path.abspath(__file__)))), 'replays', 'C02')
            os.makedirs(d, exist_ok=True)
            base = os.path.join(d, label.replace('/', '_').replace(' ', '_')[:80] + f'-opt{int(opt)}')
            for suf, b in (('.ml-gamma', g), ('.ml-claim', c), ('.ml-proof', p)):
                open(base + suf, 'wb').write(bytes(b))
            viol.append({'sig': f'C02.concrete.{label.split(" ")[0]}.checker-rejects[optimize={opt}]', 'path': base + '.ml-proof', 'detail': label})
    return viol, stats


def concrete_modules(tier: str) -> tuple[list, dict]:
    """library lemmas as one-claim modules, shipped modules, prover proofs: serialised with the real
    bytes() and checked by the real binary.  Returns (violations, stats)."""
    import multiprocessing as mp
    import time

    patches.shadow_bytes(False)
    patches.uninstall_hash()
    c10.prepare()
    rscheck.real_binary()
    t0 = time.time()
    tasks: list = [('shipped', f'shipped.{n}', n) for n in ('Propositional', 'SmallTheory', 'Substitution')]
    for i, name in enumerate(sorted(c10.BIND)):
        nl = len(c10.INV[name]['letters'])
        for variant in range(2 if tier == 'quick' else 5):
            idx = tuple((j * 2 + variant * 3 + i) % 6 for j in range(nl))
            tasks.append(('lemma', f'lemma.{name} {idx}', (name, idx)))
    if tier != 'quick':
        tasks += [('prover', f'prover.{k}', k) for k in range(5)]
    viol: list = []
    stats = {'modules': 0, 'accepted': 0, 'toolkit_refused': 0}
    with mp.get_context('fork').Pool(os.cpu_count() or 4) as pool:
        for v, st in pool.imap_unordered(_concrete_task, tasks, chunksize=2):
            viol.extend(v)
            for k2 in stats:
                stats[k2] += st[k2]
    stats['wall_s'] = round(time.time() - t0, 1)
    return viol, stats


def levels(tier: str) -> list[dict]:
    M = 'vf.props.c02'
    q = tier == 'quick'
    bud = 100 if q else 1800
    L: list[dict] = []
    plan = [('patterns', 'gamma', 3 if q else 4), ('proofs', 'proof', 3 if q else 5), ('small', 'proof', 3 if q else 6), ('all', 'gamma', 3 if q else 4), ('lookalike', 'gamma', 2 if q else 3), ('lookalike', 'proof', 2 if q else 3)]
    for alpha, ph, st in plan:
        L.append(dict(label=f'seq/{alpha}/{ph}/steps<={st}', module=M, fn='h_seq', kwargs=dict(alphabet=alpha, steps=st, phase=ph), budget_s=bud, required=True, twin=(alpha == 'small')))
    for kind in 'es':
        L.append(dict(label=f'capture/{kind}subst-resolved-under-binder', module=M, fn='h_capture', kwargs=dict(kind=kind), budget_s=bud, required=True, twin=(kind == 'e')))
    for rule in ('gen', 'mp', 'inst', 'dyninst'):
        for n in ([3, 4] if q else [3, 4, 5]):
            if rule in ('inst', 'dyninst') and n > 3:
                continue
            L.append(dict(label=f'rule/{rule}/premise={n}', module=M, fn='h_rules', kwargs=dict(rule=rule, n=n), budget_s=bud, required=n <= 3, twin=(rule == 'gen' and n == 3)))
    for rule in ('inst', 'dyninst'):
        for n in ([3] if q else [3, 4]):
            L.append(dict(label=f'rule/{rule}/axiom-with-pending-substitutions={n}', module=M, fn='h_rules', kwargs=dict(rule=rule, n=n, prof='ax_subst'), budget_s=bud, required=n <= 3, twin=False))
    for shape, nax, size in ([(0, 1, 3), (1, 1, 2), (2, 1, 2)] if q else [(0, 2, 3), (1, 2, 2), (2, 1, 3), (2, 2, 2)]):
        L.append(dict(label=f'module/imports={shape},axioms={nax},size<={size}', module=M, fn='h_module', kwargs=dict(shape=shape, nax=nax, size=size), budget_s=bud, required=True, twin=(shape == 1)))
    return L


def run(tier: str) -> dict:
    res = common.run_levels(common.tiered(levels, tier))
    try:
        viol, stats = concrete_modules(tier)
    except Exception as e:
        res.setdefault('inconclusive', []).append(f'concrete modules could not be run: {type(e).__name__}: {e}')
        return res
    res['direct_violations'] = viol
    res['validated_traces'] = res.get('validated_traces', 0) + stats['modules']
    res['extra'] = {'concrete_modules_through_real_checker': stats}
    res['samples'] = [{'concrete': 'library lemmas as one-claim modules, shipped modules' + ('' if tier == 'quick' else ', prover proofs'), **stats}]
    return res
