"""C03 Published theory and claims are exactly what was declared."""
from __future__ import annotations

import io
from pathlib import Path
from typing import Any

from .. import callseq, gens, oracle as O, patches, refm, symx
from ..gens import Prof
from . import common

ID = 'C03'
FUNCTIONS = [
    'proof.py: ProofExp.serialize (both optimise settings), execute_full/execute_gamma_phase/execute_claims_phase/execute_proofs_phase, import_module, add_axiom, load_axiom, publish_proof',
    'serializing_interpreter.py: SerializingInterpreter (symbol table, publish_*, load), instruction.py: opcode numbers',
    'counting_interpreter.py: CountingInterpreter incl. finalize; optimizing_interpreters.py: MemoizingInterpreter',
    'oracle: vf/refm.py decodes the three emitted streams',
]
ASSUMPTIONS = [
    'ids are mathematical integers, domain widened to 0..1000 so that the 255/256 boundary is inside it; the shadowed bytes() keeps the real contract (ValueError outside 0..255)',
    'id-blind structural hash installed on the Pattern dataclasses in the harness process',
    'the three output files are in-memory sinks handed to ProofExp.serialize through get_serializing_interpreter',
    'import graphs: none / one import / diamond (one arm without own axioms) / transitive import through an axiom-less module / module imported while empty and filled afterwards; expected publication order = depth-first traversal of the import graph, imports before own axioms; compared up to repetition (a module imported along two edges may be published twice)',
    'the ">256 symbols" clause is covered by one concrete run with 256 and 257 distinct symbols through the real bytes(), reported separately as a concrete test',
]
OUTSIDE = 'more than 2 axioms per module / 2 claims / 3 modules; axiom patterns above 3 nodes'
EXPLANATION = (
    'bounded symbolic execution of ProofExp.serialize on generated modules (import graph, declaration lists by forking; all ids symbolic in 0..1000): '
    'the emitted gamma/claim streams are decoded by the documented machine and compared with the declaration, for both optimise settings'
)

PROFS: dict[str, Prof] = {}


def _prof(name: str) -> Prof:
    if not PROFS:
        from proof_generation import pattern as P

        PROFS.update(
            {
                'ax': Prof(symbol=2, svar=False, mu=False, app=False, exists=True, metavars=1, mv_cfgs=((0, 0, 0, 0), (0, 0, 0, 0, 1))),  # incl. a metavariable whose only constraint list is app_ctx_holes
                'ax_collide': Prof(symbol=1, sym_names=('x0',), svar=False, mu=False, app=False, exists=False, metavars=1, mv_cfgs=((0, 0, 0, 0), (1, 0, 0, 0))),
                'ax_big': Prof(symbol=1, svar=True, mu=True, app=False, exists=True, metavars=0, id_hi=1000),
                'ax_ri': Prof(symbol=1, svar=False, mu=False, app=False, exists=False, metavars=2, raw_inst=True),
                'ax_nt': Prof(symbol=2, svar=False, mu=False, app=False, exists=False, metavars=1, notations=(P.bot, P.neg)),
            }
        )
    return PROFS[name]


def setup() -> None:
    patches.install_hash()
    patches.shadow_bytes(True)


def setup_concrete() -> None:
    pass


def reset() -> None:
    patches.reset_caches()


def serialize(pe: Any, optimize: bool) -> Any:
    """ProofExp.serialize, unmodified, writing into in-memory sinks"""
    from proof_generation.proof import OutputFormat

    holder: dict = {}

    def get(fmt: Any, phase: Any, claims: Any, path: Any) -> Any:
        it = callseq.new_serializer(phase, claims)
        holder['it'] = it
        return it

    pe.get_serializing_interpreter = get  # type: ignore[method-assign]
    pe.serialize(Path('unused'), OutputFormat.Binary, optimize)
    return holder['it']


def build_modules(ctx: Any, shape: int, nax: int, prof: str, nclaims: int, size: int = 3) -> tuple:
    """returns (main ProofExp, expected axiom order, declared claims)"""
    from proof_generation.proof import ProofExp

    def axioms(k: int) -> list:
        return [gens.gen_upto(ctx, size, _prof(prof)) for _ in range(k)]

    def mk(ax: list) -> Any:
        m = ProofExp()
        for a in ax:
            m.add_axiom(a)
        return m

    # the expected order is built from the harness's own lists, never read back from the module objects
    main_ax = axioms(nax)
    main = mk(main_ax)
    order: list = []
    if shape == 0:
        order = list(main_ax)
    elif shape == 1:
        sub_ax = axioms(1)
        sub = mk(sub_ax)
        main.import_module(sub)
        order = sub_ax + main_ax
    elif shape == 2:
        base_ax, s1_ax = axioms(1), axioms(1)
        base = mk(base_ax)
        s1 = mk(s1_ax)
        s2 = mk([])
        s1.import_module(base)
        s2.import_module(base)
        main.import_module(s1)
        main.import_module(s2)
        order = base_ax + s1_ax + base_ax + main_ax
    elif shape == 3:
        # transitive import through a module without axioms of its own
        leaf_ax = axioms(1)
        leaf = mk(leaf_ax)
        mid = mk([])
        mid.import_module(leaf)
        main.import_module(mid)
        order = leaf_ax + main_ax
    elif shape == 4:
        # a module that is imported while still empty and gets its axioms afterwards
        sub = mk([])
        main.import_module(sub)
        sub_ax = axioms(1)
        for a in sub_ax:
            sub.add_axiom(a)
        order = sub_ax + main_ax
    # claims: own axioms proved by loading them
    cands = list(main_ax)
    claims = []
    for _ in range(nclaims):
        if not cands:
            break
        c = cands[ctx.choose(len(cands), 'claim')]
        if any(bool(c == d) for d in claims):
            continue
        claims.append(c)
    for c in claims:
        main.add_claim(c)
        main.add_proof_expression(main.load_axiom(c))
    return main, order, claims


def _dedup(ts: list) -> list:
    out: list = []
    for t in ts:
        if not any(O.eq(t, u) for u in out):
            out.append(t)
    return out


def decode(it: Any) -> tuple:
    """axioms published in gamma, claims published in the claim phase (declaration order), final machine"""
    g, c, p = callseq.streams(it)
    inv = {v: k for k, v in it._symbol_identifiers.items()}
    vals = list(it._symbol_identifiers.values())
    m = refm.Machine()
    m.run(g, 'gamma')
    published = [e[1] for e in m.memory if e[0] == 'T']
    n_gamma_saved = len(m.memory)
    m.stack = []
    m.run(c, 'claim')
    claims = list(reversed(m.claims))
    m.stack = []
    m.run(p, 'proof')
    return [callseq.number_symbols(t, None) for t in published], claims, m, inv, len(set(vals)) == len(vals)


class _Refused(Exception):
    pass


def h_module(ctx: Any, shape: int, nax: int, nclaims: int, prof: str, size: int = 3, twin: bool = False) -> None:
    try:
        main, order, claims = build_modules(ctx, shape, nax, prof, nclaims, size)
    except (AssertionError, KeyError, IndexError, ValueError) as e:
        # the declaration API itself refuses a module of pairwise distinct axioms and claims
        ctx.violation('C03.declaration-refused', f'building the module through ProofExp.add_axiom/add_claim/import_module raises {type(e).__name__}: {e}')
        return
    results = {}
    errs: dict = {}
    for opt in (False, True):
        try:
            it = serialize(main, opt)
        except Exception as e:
            results[opt] = None
            errs[opt] = e
            continue
        results[opt] = it
    ctx.count('reached')
    ctx.sample({'shape': shape, 'axioms': [repr(a) for a in order], 'claims': [repr(c) for c in claims]})
    if twin:
        ctx.violation('TWIN')
    # refused or encoded: the same for both settings, and refusal only for unencodable ids
    ctx.check((results[False] is None) == (results[True] is None), 'C03.optimize-changes-refusal', lambda: f'{order!r}: {errs!r}')
    if results[False] is None:
        ctx.count('refused')
        big = False
        for t in [O.expand(a) for a in order] + [O.expand(c) for c in claims]:
            es, ss = _ids(t)
            for i in es + ss:
                if i > 255:
                    big = True
        ctx.check(big, 'C03.refuses-encodable-module', lambda: f'{order!r}: {errs!r}')
        return
    want_ax = _dedup([O.expand(a) for a in order])
    want_cl = [O.expand(c) for c in claims]
    dec = {}
    for opt in (False, True):
        it = results[opt]
        try:
            pub, cl, m, inv, bij = decode(it)
        except refm.Reject as e:
            ctx.violation(f'C03.emitted-stream-rejected[optimize={opt}|{e}]', f'{order!r} claims {claims!r}: {e}')
        except refm.Unspecified:
            ctx.count('unspecified_skipped')
            return
        ctx.check(bij, 'C03.symbol-numbering-not-injective', lambda: repr(it._symbol_identifiers))
        named = lambda t: callseq.number_symbols(t, inv)
        pub_n = _dedup([named(t) for t in pub])
        cl_n = [named(t) for t in cl]
        ok = len(pub_n) == len(want_ax) and all(O.eq(a, b) for a, b in zip(pub_n, want_ax))
        ctx.check(ok, f'C03.published-axioms-differ[optimize={opt}]', lambda: f'declared {[O.show(t) for t in want_ax]} published {[O.show(t) for t in pub_n]}')
        ok = len(cl_n) == len(want_cl) and all(O.eq(a, b) for a, b in zip(cl_n, want_cl))
        ctx.check(ok, f'C03.published-claims-differ[optimize={opt}]', lambda: f'declared {[O.show(t) for t in want_cl]} published {[O.show(t) for t in cl_n]}')
        ctx.check(not m.claims, f'C03.claims-left-undischarged[optimize={opt}]', lambda: repr(m.claims))
        # every emitted operand is a byte
        for b in sum(callseq.streams(it), []):
            ctx.check(bool(b <= 255), 'C03.operand-above-255-emitted', lambda: repr(b))
        dec[opt] = (pub_n, cl_n)
    ctx.count('decoded_both')


def _ids(t: tuple) -> tuple:
    from ..mlsem import var_slots

    return var_slots(t)


def concrete_symbol_limit() -> list[dict]:
    """256 distinct symbols must be numbered injectively, 257 must be refused (real bytes(), real files in memory)"""
    import subprocess
    import sys

    code = r'''
import io, sys
from proof_generation.pattern import Symbol, Implies
from proof_generation.proof import ProofExp
from proof_generation.interpreter import ExecutionPhase
from proof_generation.serializing_interpreter import SerializingInterpreter
def run(n):
    pe = ProofExp()
    for i in range(0, n, 2):
        pe.add_axiom(Implies(Symbol(f"sym{i}"), Symbol(f"sym{i+1}")) if i + 1 < n else Symbol(f"sym{i}"))
    outs = [io.BytesIO(), io.BytesIO(), io.BytesIO()]
    for o in outs: o.close = lambda: None
    it = SerializingInterpreter(ExecutionPhase.Gamma, outs[0], [], outs[1], outs[2])
    try:
        pe.execute_full(it)
    except Exception as e:
        return "refused:" + type(e).__name__
    ids = list(it._symbol_identifiers.values())
    data = outs[0].getvalue()
    seen = sorted({data[i + 1] for i in range(len(data) - 1) if data[i] == 4})
    return "encoded:%d:%d:%d" % (len(ids), len(set(ids)), len(seen))
print(run(256)); print(run(257)); print(run(300))
'''
    r = subprocess.run([sys.executable, '-c', code], capture_output=True, text=True)
    lines = r.stdout.split()
    out = []
    if len(lines) != 3:
        return [{'sig': 'C03.concrete-symbol-limit.crashed', 'path': '', 'detail': r.stderr[-500:]}]
    if lines[0] != 'encoded:256:256:256':
        out.append({'sig': 'C03.concrete-256-symbols-not-injective', 'path': 'inline: module with 256 distinct symbols', 'detail': lines[0]})
    for n, l in ((257, lines[1]), (300, lines[2])):
        if not l.startswith('refused'):
            out.append({'sig': f'C03.concrete-{n}-symbols-not-refused', 'path': f'inline: module with {n} distinct symbols', 'detail': l})
    return out


def _memory_case(L: int) -> Any:
    from proof_generation import pattern as P
    from proof_generation.proof import ProofExp

    leaves = [P.App(P.EVar(i % 256), P.EVar(i % 256)) for i in range(L)]
    while len(leaves) > 1:
        nxt = [P.Implies(leaves[j], leaves[j + 1]) for j in range(0, len(leaves) - 1, 2)]
        if len(leaves) % 2:
            nxt.append(leaves[-1])
        leaves = nxt
    ax = leaves[0]
    res = {}
    for opt in (False, True):
        pe = ProofExp(axioms=[ax], claims=[ax])
        pe.add_proof_expression(pe.load_axiom(ax))
        try:
            it = serialize(pe, opt)
            pub, cl, m, inv, bij = decode(it)
            ok = len(pub) == 1 and O.eq(pub[0], O.expand(ax)) and len(cl) == 1 and O.eq(cl[0], O.expand(ax)) and not m.claims
            res[opt] = 'ok' if ok else 'wrong-output'
        except Exception as e:
            res[opt] = f'raised {type(e).__name__}: {str(e)[:80]}'
    if res[False] != 'ok' or res[True] != 'ok':
        return {'sig': f'C03.memory-slots[leaves={L}|plain={res[False].split(":")[0]}|optimised={res[True].split(":")[0]}]', 'path': 'inline: vf.props.c03.concrete_memory_limit', 'detail': f'axiom = balanced implication tree over {L} leaves App(x_i, x_i), claim = axiom, proof = load_axiom: optimize=False {res[False]}, optimize=True {res[True]}'}
    return None


def concrete_memory_limit() -> list:
    """concrete (not symbolic) boundary test of the memoisation plan: one axiom that is a balanced implication tree over
    App(x_i, x_i), i < L, so that about L patterns are worth memoising; around L = 256 the optimised serialisation must
    stay inside the 256 memory slots a Load can address and publish the declared axiom and claim, as the plain one does"""
    import multiprocessing as mp

    patches.shadow_bytes(False)
    try:
        with mp.get_context('fork').Pool(6) as pool:
            res = pool.map(_memory_case, (200, 254, 255, 256, 257, 300))
    finally:
        patches.shadow_bytes(True)
    return [r for r in res if r]


def levels(tier: str) -> list[dict]:
    M = 'vf.props.c03'
    q = tier == 'quick'
    bud = 100 if q else 1800
    L: list[dict] = []
    plan = [(0, 1, 3), (0, 2, 2), (1, 1, 3), (1, 2, 2), (2, 1, 2), (3, 1, 2), (4, 1, 2)] if q else [(0, 1, 3), (0, 2, 3), (0, 3, 2), (1, 1, 3), (1, 2, 3), (2, 1, 3), (2, 2, 2), (3, 1, 3), (4, 1, 3), (3, 0, 3)]
    for shape, nax, size in plan:
        L.append(dict(label=f'module/imports={shape},axioms={nax},size<={size},claims<=2', module=M, fn='h_module', kwargs=dict(shape=shape, nax=nax, nclaims=2, prof='ax', size=size), budget_s=bud, required=nax <= 1, twin=(shape == 1 and nax == 1)))
    L.append(dict(label='module/colliding-renderings/axioms=2,size<=3', module=M, fn='h_module', kwargs=dict(shape=0, nax=2, nclaims=1, prof='ax_collide', size=3), budget_s=bud, required=True, twin=False))
    L.append(dict(label='module/ids-up-to-1000/axioms=1,size<=3', module=M, fn='h_module', kwargs=dict(shape=0, nax=1, nclaims=1, prof='ax_big', size=3), budget_s=bud, required=True, twin=False))
    L.append(dict(label='module/partial-instantiations-any-key-order/axioms=1,size=4', module=M, fn='h_module', kwargs=dict(shape=0, nax=1, nclaims=1, prof='ax_ri', size=4), budget_s=bud, required=True, twin=False))
    L.append(dict(label='module/notation/imports=1,axioms=1', module=M, fn='h_module', kwargs=dict(shape=1, nax=1, nclaims=1, prof='ax_nt'), budget_s=bud, required=True, twin=False))
    return L


def run(tier: str) -> dict:
    res = common.run_levels(common.tiered(levels, tier))
    dv = concrete_symbol_limit()
    dm = concrete_memory_limit()
    res['direct_violations'] = dv + dm
    res['samples'] = [
        {'concrete_test': '256 / 257 / 300 distinct symbols through the real bytes()', 'violations': len(dv)},
        {'concrete_test': 'memoisation plan around the 256-slot limit (axiom with 128..300 repeated sub-patterns), both optimise settings', 'violations': len(dm)},
    ]
    return res
