"""C15 Metamath compressed proofs are decoded as the Metamath specification says."""
from __future__ import annotations

import time
from typing import Any

import z3

from .. import patches, py2smt, symx
from . import common

ID = 'C15'
FUNCTIONS = [
    'metamath/converter/converter.py: convert_to_number (translated from its AST to a z3 term on every run), MetamathConverter._import_proof (parse_lemmas, split_proof, the Z / number loop), _import_floating, _import_lemma, _top_down',
    'metamath/ast.py: statement classes used to build databases directly (the Lark parser is not involved)',
]
ASSUMPTIONS = [
    'letters are code points; words have length <= 9 (20*5^8 = 7 812 500 > 10^6)',
    'reference = Appendix B of the Metamath book: digits A..T = 1..20 (least significant), U..Y = 1..5 (base 5, more significant), written most significant first',
    'databases are built as ASTs the way the parser delivers them (proof text with single blanks); whitespace handling of the parser itself belongs to C17 (not applicable)',
    'set iteration order ("every hash seed") is modelled by wrapping get_metavariables() in a set whose iteration order is chosen by forking over all permutations',
    'the label table is compared up to the converter\'s own naming of mandatory hypotheses (<variable>-is-pattern)',
]
OUTSIDE = 'essential hypotheses of the target (unsupported by the translator, as the property says); words longer than 9 letters; more than 3 mandatory variables / 3 listed labels / 5 steps'
EXPLANATION = (
    'the number decoder is translated from source to a z3 integer term per word length and compared with the Appendix-B value for all letter choices at once (unsat of the difference); '
    'encode-decode and injectivity are z3 queries over all numbers up to 20*5^8; label lists, Z marks and mandatory-hypothesis order run through the real _import_proof on generated databases under every set iteration order'
)

LO = {1: 1}
HI = {1: 20}
for _L in range(2, 10):
    LO[_L] = HI[_L - 1] + 1
    HI[_L] = 20 * sum(5**k for k in range(1, _L)) + 20 - 0
# HI[L] = 20 * (5 + 25 + ... + 5^(L-1)) + 20 : all high digits 5 (Y), low digit 20 (T)
for _L in range(2, 10):
    HI[_L] = 20 * sum(5 * 5**k for k in range(0, _L - 1)) + 20
    LO[_L] = HI[_L - 1] + 1


def spec_term(word: list) -> Any:
    """Appendix B, most significant first: n = 0; U..Y: n = 5n + d ; A..T: n = 20n + d"""
    n: Any = z3.IntVal(0)
    for ch in word[:-1]:
        n = 5 * n + (ch - ord('U') + 1)
    return 20 * n + (word[-1] - ord('A') + 1)


def valid(word: list) -> Any:
    cs = [z3.And(ch >= ord('U'), ch <= ord('Y')) for ch in word[:-1]]
    cs.append(z3.And(word[-1] >= ord('A'), word[-1] <= ord('T')))
    return z3.And(cs)


def encode_term(n: Any, L: int) -> tuple:
    """reference encoder as z3 terms: letters (most significant first) of the L-letter word for n, and 'n has exactly L letters'"""
    low = ((n - 1) % 20) + 1
    q = (n - low) / 20
    digs = []
    for _ in range(L - 1):
        h = ((q - 1) % 5) + 1
        digs.append(h)
        q = (q - h) / 5
    word = [d + ord('U') - 1 for d in reversed(digs)] + [low + ord('A') - 1]
    return word, q == 0


def _check(s: Any) -> Any:
    r = s.check()
    if r == z3.unknown:
        raise RuntimeError('z3 unknown: ' + s.reason_unknown())
    return r


def number_obligations(maxlen: int = 9) -> tuple[list, dict]:
    viol: list = []
    stats = {'queries': 0, 'solver_s': 0.0, 'samples': [], 'word_lengths': maxlen}
    real = _real_decoder()
    for L in range(1, maxlen + 1):
        word = [z3.Int(f'c{i}') for i in range(L)]
        impl, keyerr = py2smt.kernel_term(word)
        # (1) implementation == Appendix B on every valid word, and no KeyError
        s = z3.Solver()
        s.add(valid(word))
        s.add(z3.Or(impl != spec_term(word), keyerr))
        t0 = time.time()
        r = _check(s)
        stats['queries'] += 1
        stats['solver_s'] += time.time() - t0
        if r == z3.sat:
            m = s.model()
            w = ''.join(chr(m.eval(c, model_completion=True).as_long()) for c in word)
            want = _spec_concrete(w)
            try:
                got = real(w)
            except Exception as e:  # noqa
                got = f'{type(e).__name__}'
            if got == want:
                raise symx.HarnessError(f'decoder counterexample {w} does not reproduce on the real code')
            viol.append({'sig': f'C15.number.decodes-wrong[len={L}]', 'path': f'inline: convert_to_number({w!r})', 'detail': f'{w}: real code gives {got}, Appendix B {want}'})
        elif len(stats['samples']) < 3:
            stats['samples'].append({'obligation': f'decoder == Appendix B for all {20 * 5 ** (L - 1)} words of length {L}', 'result': 'unsat'})
        # (2) encode then decode is the identity on [LO, HI] of this length
        n = z3.Int('n')
        w2, fits = encode_term(n, L)
        impl2, keyerr2 = py2smt.kernel_term(w2)
        s = z3.Solver()
        s.add(n >= LO[L], n <= HI[L])
        s.add(z3.Or(z3.Not(fits), impl2 != n, keyerr2))
        t0 = time.time()
        r = _check(s)
        stats['queries'] += 1
        stats['solver_s'] += time.time() - t0
        if r == z3.sat:
            nv = s.model().eval(n, model_completion=True).as_long()
            w = _encode_concrete(nv)
            try:
                got = real(w)
            except Exception as e:  # noqa
                got = type(e).__name__
            if got == nv:
                raise symx.HarnessError(f'round-trip counterexample {nv} does not reproduce')
            viol.append({'sig': f'C15.number.roundtrip-fails[len={L}]', 'path': f'inline: {nv} encodes as {w}', 'detail': f'{nv} -> {w} -> {got}'})
    # (3) one number, one encoding: two different valid words never decode to the same number
    for L1 in range(1, maxlen + 1):
        for L2 in range(L1, min(maxlen, L1 + 1) + 1):
            w1 = [z3.Int(f'a{i}') for i in range(L1)]
            w2 = [z3.Int(f'b{i}') for i in range(L2)]
            i1, _ = py2smt.kernel_term(w1)
            i2, _ = py2smt.kernel_term(w2)
            s = z3.Solver()
            s.add(valid(w1), valid(w2), i1 == i2)
            if L1 == L2:
                s.add(z3.Or([a != b for a, b in zip(w1, w2)]))
            t0 = time.time()
            r = _check(s)
            stats['queries'] += 1
            stats['solver_s'] += time.time() - t0
            if r == z3.sat:
                m = s.model()
                a = ''.join(chr(m.eval(c, model_completion=True).as_long()) for c in w1)
                b = ''.join(chr(m.eval(c, model_completion=True).as_long()) for c in w2)
                if real(a) != real(b):
                    raise symx.HarnessError('injectivity counterexample does not reproduce')
                viol.append({'sig': f'C15.number.two-encodings[len={L1},{L2}]', 'path': f'inline: {a} and {b}', 'detail': f'{a} and {b} both decode to {real(a)}'})
    stats['solver_s'] = round(stats['solver_s'], 2)
    return viol, stats


def _spec_concrete(w: str) -> int:
    n = 0
    for ch in w[:-1]:
        n = 5 * n + (ord(ch) - ord('U') + 1)
    return 20 * n + (ord(w[-1]) - ord('A') + 1)


def _encode_concrete(n: int) -> str:
    low = ((n - 1) % 20) + 1
    q = (n - low) // 20
    out = chr(low + ord('A') - 1)
    while q > 0:
        h = ((q - 1) % 5) + 1
        out = chr(h + ord('U') - 1) + out
        q = (q - h) // 5
    return out


def _real_decoder() -> Any:
    """the real convert_to_number, reached through the real _import_proof on a one-step proof"""

    def dec(w: str) -> int:
        conv, goal = _database(['ph0', 'x', 'ph1'], ['ph0'], [], w)
        return list(conv.get_lemma_by_name('goal').proof.applied_lemmas)[0]

    return dec


# -- whole _import_proof on generated databases ----------------------------------------------------


def _database(float_order: list, goal_vars: list, labels: list, steps: str, layout: int = 0, earlier: bool = False) -> tuple:
    from proof_generation.metamath import ast as A
    from proof_generation.metamath.converter.converter import MetamathConverter

    def app(sym: str, *subs: Any) -> Any:
        return A.Application(sym, tuple(subs))

    def mv(n: str) -> Any:
        return A.Metavariable(n)

    kinds = {'ph0': '#Pattern', 'ph1': '#Pattern', 'ph2': '#Pattern', 'x': '#ElementVariable'}
    st: list = [A.ConstantStatement(('#Pattern', '#ElementVariable', '|-', '\\imp', '\\exists', '(', ')')), A.VariableStatement(tuple(mv(v) for v in ('ph0', 'ph1', 'ph2', 'x')))]
    for v in float_order:
        st.append(A.FloatingStatement(f'{v}-is-pattern', (app(kinds[v]), mv(v))))
    st.append(A.AxiomaticStatement('imp-is-pattern', (app('#Pattern'), app('\\imp', mv('ph0'), mv('ph1')))))
    if 'x' in float_order:
        st.append(A.AxiomaticStatement('exists-is-pattern', (app('#Pattern'), app('\\exists', mv('x'), mv('ph0')))))
    st.append(A.AxiomaticStatement('ax-1', (app('|-'), app('\\imp', mv('ph0'), app('\\imp', mv('ph1'), mv('ph0'))))))
    # the goal mentions exactly goal_vars
    ex = lambda v: app('\\exists', mv('x'), mv(v))
    imp = lambda a, b: app('\\imp', a, b)
    goals = {
        ('ph0',): imp(mv('ph0'), mv('ph0')),
        ('ph1',): imp(mv('ph1'), mv('ph1')),
        ('ph0', 'ph1'): imp(mv('ph1'), imp(mv('ph0'), mv('ph1'))),
        ('ph0', 'x'): imp(ex('ph0'), mv('ph0')),
        ('ph1', 'x'): imp(ex('ph1'), mv('ph1')),
        ('ph0', 'ph1', 'x'): imp(mv('ph1'), imp(ex('ph0'), mv('ph1'))),
    }
    body = goals[tuple(sorted(goal_vars))]
    proof = '( ' + ''.join(l + ' ' for l in labels) + ') ' + steps
    if earlier:
        # an earlier theorem over the same variables with another label list (decoded first, by the same converter)
        st.append(A.ProvableStatement('earlier', (app('|-'), body), '( ax-1 imp-is-pattern ) A'))
    goal = A.ProvableStatement('goal', (app('|-'), body), proof)
    if layout == 0:
        st.append(goal)
    elif layout == 1:
        st.append(A.Block((goal,)))
    else:
        # the theorem closes a block whose $d names a variable the theorem does not mention
        # ($d x ph: "x is fresh in ph"; the element variable x does not occur in the theorem)
        pv = [v for v in goal_vars if v != 'x'][0]
        st.append(A.Block((A.DisjointStatement((mv('x'), mv(pv))), goal) if 'x' not in goal_vars else (goal,)))
    db = A.Database(tuple(st))
    return MetamathConverter(db), db


BOUNDARY = (1, 2, 20, 21, 22, 120, 121, 620, 621, 3120, 3121)


def h_proof(ctx: Any, nvars: int, nlabels: int, nsteps: int, layouts: bool = False, twin: bool = False) -> None:
    from itertools import permutations

    from proof_generation.metamath import ast as A

    pool = ['ph0', 'x', 'ph1']
    perms = list(permutations(pool))
    order = list(perms[ctx.choose(len(perms), 'float-order')])
    # which of them the goal mentions
    subsets = [s for s in (['ph0'], ['ph1'], ['ph0', 'ph1'], ['ph0', 'x'], ['ph1', 'x'], ['ph0', 'ph1', 'x']) if len(s) <= nvars]
    gv = subsets[ctx.choose(len(subsets), 'goal-vars')]
    lab_pool = ['imp-is-pattern', 'ax-1'] + (['exists-is-pattern'] if 'x' in pool else [])
    labels = lab_pool[: ctx.choose(min(nlabels, len(lab_pool)) + 1, 'nlabels')]
    steps: list = []
    for _ in range(1 + ctx.choose(nsteps, 'nsteps')):
        k = ctx.choose(len(BOUNDARY) + 1, 'step')
        if k == len(BOUNDARY):
            ctx.assume(len(steps) > 0 and steps[-1] != 'Z')
            steps.append('Z')
        else:
            steps.append(BOUNDARY[k])
    text = ''.join(s if s == 'Z' else _encode_concrete(s) for s in steps)
    # blanks anywhere between the letters (the parser delivers single blanks)
    cut = ctx.choose(len(text), 'blank')
    if cut:
        text = text[:cut] + ' ' + text[cut:]
    # every iteration order of the set of mandatory variables
    orig = A.ConclusionStatement.get_metavariables if hasattr(A.ConclusionStatement, 'get_metavariables') else A.StructuredStatement.get_metavariables
    order_choice = {}

    class OrderedSet(set):
        def __iter__(self) -> Any:
            items = sorted(set.__iter__(self))
            key = tuple(items)
            if key not in order_choice:
                ps = list(permutations(items))
                order_choice[key] = ps[ctx.choose(len(ps), 'set-order')]
            return iter(order_choice[key])

    def patched(self: Any) -> Any:
        return OrderedSet(orig(self))

    layout, earlier = (ctx.choose(3, 'layout'), ctx.choose(2, 'earlier theorem') == 1) if layouts else (0, False)
    if layouts and ctx.choose(2, 'another database converted first') == 1:
        # an earlier converter in the same process, for a database that declares the floating statements in the
        # opposite order: a later conversion must not remember it
        try:
            _database(list(reversed(order)), gv, [], 'A')
        except Exception:
            ctx.count('warmup_raised')
    A.StructuredStatement.get_metavariables = patched  # type: ignore[method-assign]
    try:
        conv, db = _database(order, gv, labels, text, layout, earlier)
        proof = conv.get_lemma_by_name('goal').proof
        if earlier:
            ep = conv.get_lemma_by_name('earlier').proof
    except Exception as e:
        A.StructuredStatement.get_metavariables = orig  # type: ignore[method-assign]
        ctx.count('converter_raised')
        ctx.violation(f'C15.proof.converter-raises[{type(e).__name__}]', f'floats {order} goal over {gv} labels {labels} steps {steps!r} text {text!r}: {e}')
    finally:
        A.StructuredStatement.get_metavariables = orig  # type: ignore[method-assign]
    ctx.count('reached')
    ctx.sample({'floating_order': order, 'goal_variables': gv, 'labels': labels, 'steps': [str(s) for s in steps], 'proof_text': text})
    if twin:
        ctx.violation('TWIN')
    mand = [v for v in order if v in gv]
    want_labels = {i + 1: f'{v}-is-pattern' for i, v in enumerate(mand)}
    for l in labels:
        want_labels[len(want_labels) + 1] = l
    want_steps = [0 if s == 'Z' else s for s in steps]
    ctx.check(dict(proof.labels) == want_labels, 'C15.proof.label-table-differs', lambda: f'floats {order} goal over {gv} labels {labels}: got {dict(proof.labels)!r} expected {want_labels!r}')
    ctx.check(list(proof.applied_lemmas) == want_steps, 'C15.proof.steps-differ', lambda: f'steps {steps!r} text {text!r}: got {list(proof.applied_lemmas)!r}')
    if earlier:
        want_e = {i + 1: f'{v}-is-pattern' for i, v in enumerate(mand)}
        for l in ('ax-1', 'imp-is-pattern'):
            want_e[len(want_e) + 1] = l
        ctx.check(dict(ep.labels) == want_e and list(ep.applied_lemmas) == [1], 'C15.proof.earlier-theorem-differs', lambda: f'floats {order} goal over {gv}: earlier theorem decoded as {dict(ep.labels)!r} {list(ep.applied_lemmas)!r}, expected {want_e!r} [1]')


# -- marked steps are resolved when the proof is executed ------------------------------------------

def _decode_letters(text: str) -> list:
    """Appendix B on the letters of a compressed proof: numbers and 'Z' (blanks ignored)"""
    steps: list = []
    cur = ''
    for ch in text:
        if ch.isspace():
            continue
        if ch == 'Z':
            steps.append('Z')
        elif 'U' <= ch <= 'Y':
            cur += ch
        else:
            steps.append(_spec_concrete(cur + ch))
            cur = ''
    return steps


def h_exec(ctx: Any, bench: str, twin: bool = False) -> None:
    """"Z marks the preceding step for reuse, and numbers index ... then marked steps": a shipped compressed proof
    gets one more (unused) mark after an arbitrary step -- Appendix B numbers the k-th Z m+n+k whatever step it follows,
    so every reference to a later mark moves up by one -- and must still execute to the same theorem"""
    import re

    from proof_generation.interpreter import ExecutionPhase
    from proof_generation.metamath.converter.converter import MetamathConverter
    from proof_generation.metamath.parser import parse_database
    from proof_generation.metamath.translate import exec_proof
    from proof_generation.proof import ProofExp
    from proof_generation.proved import Proved
    from proof_generation.stateful_interpreter import StatefulInterpreter
    from ..paths import REPO

    src = open(f'{REPO}/generation/mm-benchmarks/{bench}.mm').read()
    mm = re.search(r'(goal \$p [^$]*\$=\s*\()([^)]*)(\))([^$]*)(\$\.)', src)
    assert mm is not None
    labels = mm.group(2).split()
    steps = _decode_letters(mm.group(4))
    # m mandatory hypotheses: every number up to the first label's number that occurs is a hypothesis or label;
    # marks are numbered from base+1 where base = m + n.  base is read off the original proof: the largest number
    # that can be a label is found by executing the original with the real converter below.
    conv0 = MetamathConverter(parse_database(src))
    base = len(conv0.get_lemma_by_name('goal').proof.labels)
    ctx.assume(base >= len(labels))
    # (not directly before an existing Z: two marks in a row on one step are not clearly covered by Appendix B)
    positions = [i + 1 for i, st in enumerate(steps) if st != 'Z' and (i + 1 == len(steps) or steps[i + 1] != 'Z')]
    # one or two extra marks (two of them may follow steps with equal results: both get a number)
    p1 = positions[ctx.choose(len(positions), 'extra mark after step')] if not twin else positions[0]
    rest = [p for p in positions if p > p1]
    j = ctx.choose(len(rest) + 1, 'second extra mark') if not twin else 0
    extra = [p1] + ([rest[j - 1]] if j else [])
    pos = tuple(extra)
    new = []
    marks_seen = 0  # marks of the new proof emitted so far
    shift_at = []  # the new marks' ordinal numbers
    for i, st in enumerate(steps + [None]):
        if i in extra:
            marks_seen += 1
            shift_at.append(marks_seen)
            new.append('Z')
        if st is None:
            break
        if st == 'Z':
            marks_seen += 1
            new.append('Z')
        elif st > base:
            # a reference to the k-th original mark: its new ordinal = k + number of extra marks placed before it
            k = st - base
            orig_seen = 0
            nk = None
            cnt = 0
            for ii, s2 in enumerate(steps):
                if ii in extra:
                    cnt += 1
                if s2 == 'Z':
                    orig_seen += 1
                    cnt += 1
                    if orig_seen == k:
                        nk = cnt
                        break
            new.append(base + nk)
        else:
            new.append(st)
    text = ''.join(st if st == 'Z' else _encode_concrete(st) for st in new)
    src2 = src[: mm.start(4)] + ' ' + text + ' ' + src[mm.end(4):]
    ctx.count('reached')
    ctx.sample({'benchmark': bench, 'extra_marks_after_steps': list(pos), 'proof_text': text})
    if twin:
        ctx.violation('TWIN')
    outcomes = []
    for label, source in (('original', src), ('with the extra mark', src2)):
        try:
            conv = MetamathConverter(parse_database(source))
            pe = ProofExp(axioms=[], claims=[conv.get_lemma_by_name('goal').pattern])
            from proof_generation.claim import Claim

            goal = conv.get_lemma_by_name('goal').pattern
            it = StatefulInterpreter(ExecutionPhase.Proof, claims=[Claim(goal)])
            exec_proof(conv, 'goal', pe, it)  # ends with publish_proof, which compares with the claim
            outcomes.append((label, 'ok', len(it.claims), 0))
        except Exception as e:
            outcomes.append((label, f'raised {type(e).__name__}: {str(e)[:80]}', None, None))
    ctx.assume(outcomes[0][1] == 'ok')
    ctx.check(outcomes[1][1] == 'ok', 'C15.exec.marked-steps.raises', lambda: f'{bench}: proof {text!r} (extra marks after steps {pos}): {outcomes[1][1]}')
    ctx.check(outcomes[1][2] == outcomes[1][3], 'C15.exec.marked-steps.claim-not-discharged', lambda: f'{bench}: proof {text!r}: {outcomes[1][2]} claim(s) left')


def setup() -> None:
    pass


def setup_concrete() -> None:
    pass


def reset() -> None:
    patches.reset_caches()


def levels(tier: str) -> list[dict]:
    M = 'vf.props.c15'
    q = tier == 'quick'
    bud = 100 if q else 1500
    L: list[dict] = []
    for nv, nl, ns in ([(1, 1, 2), (3, 3, 1), (3, 1, 2)] if q else [(1, 2, 3), (3, 3, 2), (3, 1, 3), (2, 2, 4)]):
        L.append(dict(label=f'import_proof/vars<={nv},labels<={nl},steps<={ns}', module=M, fn='h_proof', kwargs=dict(nvars=nv, nlabels=nl, nsteps=ns), budget_s=bud, required=True, twin=(nv == 1)))
    for bench in (('impreflex-compressed-goal',) if q else ('impreflex-compressed-goal', 'transfer-simple-compressed-goal')):
        L.append(dict(label=f'exec_proof/{bench}/one or two more marks after any steps', module=M, fn='h_exec', kwargs=dict(bench=bench), budget_s=bud, required=q, twin=False))
    for nv, nl, ns in ([(3, 2, 1)] if q else [(3, 2, 1), (3, 3, 2)]):
        L.append(dict(label=f'import_proof/top-level|block|block-with-$d, with and without an earlier theorem/vars<={nv},labels<={nl},steps<={ns}', module=M, fn='h_proof', kwargs=dict(nvars=nv, nlabels=nl, nsteps=ns, layouts=True), budget_s=bud, required=True, twin=False))
    return L


def run(tier: str) -> dict:
    try:
        viol, stats = number_obligations(9)
    except py2smt.Unsupported as e:
        return {'levels': [], 'inconclusive': [f'py2smt-mini: {e}'], 'errors': []}
    except RuntimeError as e:
        return {'levels': [], 'inconclusive': [str(e)], 'errors': []}
    res = common.run_levels(common.tiered(levels, tier))
    res['direct_violations'] = viol
    res['extra_queries'] = stats['queries']
    res['extra_solver_s'] = stats['solver_s']
    res['extra'] = {'number_obligations': {k: v for k, v in stats.items() if k != 'samples'}, 'numbers_covered_exhaustively_up_to': HI[9]}
    res['samples'] = stats['samples']
    return res
