"""C06 Freshness and positivity judgements are sound for every instantiation."""
from __future__ import annotations

from typing import Any

from .. import gens, oracle as O, patches, rsbridge
from ..gens import Prof
from ..rsrt import Panic
from . import common

ID = 'C06'
FUNCTIONS = [
    'rust/src/lib.rs (via rs2py, re-transpiled on every run): Pattern::e_fresh, s_fresh, positive, negative for all eleven variants',
    'pattern.py: evar_is_free of EVar/SVar/Symbol/Implies/App/Exists/Mu/MetaVar/ESubst/SSubst/Instantiate',
]
ASSUMPTIONS = [
    'ids are mathematical integers in 0..255 (no u8 arithmetic occurs in these functions, ids are only compared)',
    'the Rust functions are executed through the rs2py transpilation, which is validated against the rustc-built checker on 4000+ streams in every run of C05 (and by the twin in this check)',
    'ground truth = free variables / polarity of the concrete instance computed by vf/oracle.py; pending substitutions are resolved by replacing free occurrences',
    'only ESubst/SSubst nodes that the documented well-formedness admits (non-redundant) are generated',
    'app_ctx_holes empty',
]
OUTSIDE = 'meta-patterns above the node bound; instantiation values above the value bound; more than one constraint per list in the quick tier'
EXPLANATION = (
    'bounded symbolic execution: meta-pattern shapes and instantiation shapes by forking, the judged variable, all ids and all constraint-list '
    'members symbolic; z3 decides feasibility, so a path on which a judgement is True while the instance violates it is a counterexample for concrete ids'
)

PROFS: dict[str, Prof] = {}


def _prof(name: str) -> Prof:
    if not PROFS:
        from proof_generation import pattern as P

        one = ((0, 0, 0, 0), (1, 0, 0, 0), (0, 1, 0, 0), (0, 0, 1, 0), (0, 0, 0, 1), (0, 0, 1, 1))
        PROFS.update(
            {
                'meta_e': Prof(symbol=0, svar=False, mu=False, app=False, metavars=1, subst=True, mv_cfgs=((0, 0, 0, 0), (1, 0, 0, 0))),
                'meta_s': Prof(symbol=0, evar=False, exists=False, app=False, metavars=1, subst=True, mv_cfgs=one),
                'meta_full': Prof(symbol=0, metavars=1, subst=True, mv_cfgs=one),
                'meta_ss': Prof(symbol=0, evar=False, exists=False, mu=False, app=False, metavars=1, subst=True, mv_cfgs=((0, 0, 0, 0), (0, 0, 1, 0), (0, 0, 0, 1))),
                'val_ss': Prof(symbol=0, evar=False, exists=False, mu=False, app=False),
                'val_e': Prof(symbol=0, svar=False, mu=False, app=False),
                'val_s': Prof(symbol=0, evar=False, exists=False, app=False),
                'val_full': Prof(symbol=0, app=False),
                'meta_raw': Prof(symbol=0, svar=False, mu=False, app=True, implies=False, exists=True, metavars=2, raw_inst=True),
                'meta_nt': Prof(symbol=0, svar=False, mu=False, app=False, metavars=1, mv_cfgs=((0, 0, 0, 0), (1, 0, 0, 0)), notations=(P.bot, P.neg, P._and)),
            }
        )
    return PROFS[name]


def setup() -> None:
    patches.install_hash()
    rsbridge.mod()


def reset() -> None:
    patches.reset_caches()


def _sigma(ctx: Any, t: tuple, m: int, valprof: str) -> dict:
    """a total instantiation of t's metavariables with concrete values that respect every declared constraint"""
    nodes = O.all_metavar_nodes(t)
    sig: dict = {}
    for k in sorted({n[1] for n in nodes}):
        v = O.expand(gens.gen_upto(ctx, m, _prof(valprof)))
        for n in nodes:
            if n[1] == k:
                ctx.assume(O.respects(n, v))
        sig[k] = v
    return sig


def h_judge(ctx: Any, n: int, m: int, impl: str, kind: str, prof: str, valprof: str, history: bool = False, twin: bool = False) -> None:
    if prof == 'stacked':
        # two pending substitutions stacked on one constrained metavariable (same or different variables, both kinds),
        # plugs of up to n nodes
        from proof_generation import pattern as P

        cfgs = ((0, 0, 0, 0), (1, 0, 0, 0), (0, 1, 0, 0), (0, 0, 1, 0), (0, 0, 0, 1))
        cfg = cfgs[ctx.choose(len(cfgs), 'constraint')]
        p = P.MetaVar(0, tuple(P.EVar(ctx.int('ce')) for _ in range(cfg[0])), tuple(P.SVar(ctx.int('cs')) for _ in range(cfg[1])), tuple(P.SVar(ctx.int('cp')) for _ in range(cfg[2])), tuple(P.SVar(ctx.int('cn')) for _ in range(cfg[3])))
        for _ in range(2):
            plug = gens.gen_upto(ctx, n, _prof('val_full'))
            if ctx.choose(2, 'substitution kind') == 0:
                p = P.ESubst(p, P.EVar(ctx.int('ve')), plug)
            else:
                p = P.SSubst(p, P.SVar(ctx.int('vs')), plug)
    else:
        p = gens.gen(ctx, n, _prof(prof))
    t = O.expand(p)
    ctx.assume(O.has_meta(t) and O.doc_wf_subst(t))
    v = ctx.int('v')
    if history and impl == 'py':
        # a judgement must not depend on earlier ones: the sibling patterns are judged first (same variable, and its neighbour)
        for sib in gens.siblings(p, ctx):
            for w in (v, v + 1):
                try:
                    sib.evar_is_free(w)
                except Exception:
                    ctx.count('warmup_raised')
    if impl == 'py':
        assert kind == 'e_fresh'
        judged = bool(p.evar_is_free(v))
    else:
        rp = rsbridge.to_rs(t)
        try:
            judged = bool(getattr(rp, kind)(v))
        except Panic:
            ctx.assume(False)
    ctx.count('reached')
    if not judged:
        ctx.count('judged_false')
        if not twin:
            return
    sig = _sigma(ctx, t, m, valprof)
    inst = O.inst(t, sig)
    ctx.count('judged_true_with_instance')
    ctx.sample({'meta_pattern': O.show(t), 'var': repr(v), 'judgement': kind, 'sigma': {k: O.show(s) for k, s in sig.items()}})
    if twin:
        ctx.violation('TWIN')
    if kind == 'e_fresh':
        ok = not O.occurs_free_e(inst, v)
    elif kind == 's_fresh':
        ok = not O.occurs_free_s(inst, v)
    elif kind == 'positive':
        ok = O.only_polarity(inst, v, True)
    else:
        ok = O.only_polarity(inst, v, False)
    ctx.check(ok, f'C06.{impl}.{kind}.unsound[{t[0]}]', lambda: f'{O.show(t)} judged {kind}({v}) but instance {O.show(inst)} (sigma={ {k: O.show(s) for k, s in sig.items()} })')


def h_notation(ctx: Any, n: int, prof: str = 'meta_nt', history: bool = False, twin: bool = False) -> None:
    """a pattern and its expansion get the same judgement (Python side; the checker has no notation)"""
    p = gens.gen(ctx, n, _prof(prof))
    ctx.assume('Instantiate' in gens.kinds(p))
    pe = gens.from_term(O.expand(p))
    v = ctx.int('v')
    if history:
        for sib in gens.siblings(p, ctx):
            try:
                sib.evar_is_free(v)
            except Exception:
                ctx.count('warmup_raised')
    a, b = bool(p.evar_is_free(v)), bool(pe.evar_is_free(v))
    ctx.count('reached')
    ctx.sample({'pattern': repr(p), 'var': repr(v)})
    if twin:
        ctx.violation('TWIN')
    ctx.check(a == b, f'C06.py.notation-changes-judgement[{type(p).__name__}]', lambda: f'{p!r}.evar_is_free({v}) = {a}, expansion {b}')


def levels(tier: str) -> list[dict]:
    M = 'vf.props.c06'
    q = tier == 'quick'
    bud = 60 if q else 900
    L: list[dict] = []
    nmax = 4 if q else 5
    m = 2 if q else 3
    for n in range(1, nmax + 1):
        L.append(dict(label=f'py/e_fresh/n={n},val<={m}', module=M, fn='h_judge', kwargs=dict(n=n, m=m, impl='py', kind='e_fresh', prof='meta_e', valprof='val_e'), budget_s=bud, required=n <= 3, twin=(n == 3)))
        L.append(dict(label=f'rs/e_fresh/n={n},val<={m}', module=M, fn='h_judge', kwargs=dict(n=n, m=m, impl='rs', kind='e_fresh', prof='meta_e', valprof='val_e'), budget_s=bud, required=n <= 3, twin=(n == 3)))
    for kind in ('s_fresh', 'positive', 'negative'):
        for n in range(1, nmax + 1):
            L.append(dict(label=f'rs/{kind}/n={n},val<={m}', module=M, fn='h_judge', kwargs=dict(n=n, m=m, impl='rs', kind=kind, prof='meta_s', valprof='val_s'), budget_s=bud, required=n <= 3, twin=(n == 3 and kind == 'positive')))
    for kind in ('positive', 'negative'):
        L.append(dict(label=f'rs/{kind}/ssubst-polarity/n=5,val<=3', module=M, fn='h_judge', kwargs=dict(n=5, m=3, impl='rs', kind=kind, prof='meta_ss', valprof='val_ss'), budget_s=bud, required=True, twin=False))
    # every constructor and both kinds of variable in pattern and value (the kind-specific profiles above go deeper)
    for kind in ('e_fresh', 's_fresh', 'positive', 'negative'):
        for n in ([2, 3] if q else [2, 3, 4]):
            L.append(dict(label=f'rs/{kind}/full/n={n},val<={2 if q else 3}', module=M, fn='h_judge', kwargs=dict(n=n, m=2 if q else 3, impl='rs', kind=kind, prof='meta_full', valprof='val_full'), budget_s=bud, required=n <= 3, twin=False))
        if kind in ('positive', 'negative'):
            L.append(dict(label=f'rs/{kind}/full/n=3,val<=3', module=M, fn='h_judge', kwargs=dict(n=3, m=3, impl='rs', kind=kind, prof='meta_full', valprof='val_full'), budget_s=bud, required=True, twin=False))
    for kind, impl in (('e_fresh', 'py'), ('e_fresh', 'rs'), ('s_fresh', 'rs'), ('positive', 'rs'), ('negative', 'rs')):
        L.append(dict(label=f'{impl}/{kind}/two-stacked-substitutions/plugs<={2 if q else 3},val<=1', module=M, fn='h_judge', kwargs=dict(n=2 if q else 3, m=1, impl=impl, kind=kind, prof='stacked', valprof='val_full'), budget_s=bud, required=q, twin=False))
    for n in ([1, 2, 3] if q else [1, 2, 3, 4]):
        L.append(dict(label=f'py/e_fresh/full/n={n},val<={2 if q else 3}', module=M, fn='h_judge', kwargs=dict(n=n, m=2 if q else 3, impl='py', kind='e_fresh', prof='meta_full', valprof='val_full'), budget_s=bud, required=n <= 3, twin=False))
    for n in ([3, 4] if q else [3, 4, 5]):
        L.append(dict(label=f'py/notation/partial-instantiate-of-open-bodies/n={n}', module=M, fn='h_notation', kwargs=dict(n=n, prof='meta_raw'), budget_s=bud, required=n <= 4, twin=False))
    for n in ([2, 3] if q else [2, 3, 4]):
        L.append(dict(label=f'py/e_fresh-after-sibling-judgements/n={n},val<={m}', module=M, fn='h_judge', kwargs=dict(n=n, m=m, impl='py', kind='e_fresh', prof='meta_e', valprof='val_e', history=True), budget_s=bud, required=n <= 3, twin=False))
        L.append(dict(label=f'py/notation-after-sibling-judgements/n={n + 1}', module=M, fn='h_notation', kwargs=dict(n=n + 1, history=True), budget_s=bud, required=n <= 3, twin=False))
        L.append(dict(label=f'py/notation-after-sibling-judgements/partial-instantiate-of-open-bodies/n={n + 1}', module=M, fn='h_notation', kwargs=dict(n=n + 1, prof='meta_raw', history=True), budget_s=bud, required=n <= 3, twin=False))
    for n in ([2, 3, 4] if q else [2, 3, 4, 5]):
        L.append(dict(label=f'py/notation/n={n}', module=M, fn='h_notation', kwargs=dict(n=n), budget_s=bud, required=n <= 3, twin=(n == 3)))
    return L


def run(tier: str) -> dict:
    return common.run_levels(common.tiered(levels, tier))
