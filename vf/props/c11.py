"""C11 Substitution and instantiation obey their algebra (Python half; the Rust
half and the semantic substitution lemma are in c11 levels 'rust-*' / 'sem-*')."""
from __future__ import annotations

from itertools import permutations
from typing import Any

from .. import gens, oracle as O, patches
from ..gens import Prof
from . import common

ID = 'C11'
FUNCTIONS = [
    'rust/src/lib.rs via rs2py: apply_esubst, apply_ssubst, instantiate_internal',
    'pattern.py: EVar/SVar/Symbol/Implies/App/Exists/Mu/MetaVar/ESubst/SSubst/Instantiate .apply_esubst/.apply_ssubst/.instantiate',
    'pattern.py: Instantiate.simplify, Notation.__call__',
]
ASSUMPTIONS = [
    'ids are mathematical integers in 0..255 (the u8 of the format)',
    'hash() of the Pattern dataclasses replaced by an id-blind structural hash in the harness process (equal patterns keep equal hashes)',
    'oracle = vf/oracle.py (own textbook implementation), executed symbolically alongside the code under test',
]
OUTSIDE = 'patterns larger than the stated node bounds; app_ctx_holes always empty; the semantic substitution lemma only for concrete patterns, element-variable plugs for ESubst, carriers <= 2/3'
EXPLANATION = (
    'bounded symbolic execution of the real pattern.py: shapes enumerated by forking, all variable/binder ids and '
    'constraint-list members symbolic; z3 decides the feasibility of every branch, an explored path on which the result '
    'differs from the textbook oracle is a counterexample and is replayed concretely'
)


def _profs() -> dict[str, Prof]:
    from proof_generation import pattern as P
    from proof_generation.proofs import definedness as D
    from proof_generation.proofs import kore as K
    from proof_generation.proofs import substitution as S

    return {
        'concrete': Prof(symbol=1),
        'meta': Prof(symbol=1, metavars=2, subst=True, mv_cfgs=((0, 0, 0, 0), (1, 0, 0, 0), (0, 1, 0, 0))),
        'sem': Prof(symbol=1),
        'metars': Prof(symbol=1, metavars=2, subst=True, mv_cfgs=((0, 0, 0, 0), (1, 0, 0, 0), (0, 1, 0, 0))),
        'meta0': Prof(symbol=1, metavars=2, subst=True),
        'notation': Prof(symbol=0, metavars=2, subst=False, mu=False, notations=(P.bot, P.neg, P._and, P._or)),
        'plug': Prof(symbol=1, metavars=1, mu=True),
        'binder': Prof(symbol=0, svar=False, mu=False, app=True, implies=False, exists=False, metavars=1, notations=(D.functional, S.forall(0), S.forall(1), K.sorted_exists(1))),
        'rawinst': Prof(symbol=0, svar=False, mu=False, app=False, metavars=2, raw_inst=True),
        'val': Prof(symbol=0, metavars=2, mu=False, app=False),
    }


PROFS: dict[str, Prof] = {}


def setup() -> None:
    patches.install_hash()
    from .. import rsbridge

    rsbridge.mod()


def setup_concrete() -> None:
    from .. import rsbridge

    rsbridge.mod()


def reset() -> None:
    patches.reset_caches()


def _prof(name: str) -> Prof:
    if not PROFS:
        PROFS.update(_profs())
    return PROFS[name]


def _kinds(p: Any) -> str:
    """coarse, deterministic description of what the pattern contains (for signatures)"""
    s: set[str] = set()

    def walk(q: Any) -> None:
        n = type(q).__name__
        s.add(n)
        for f in ('left', 'right', 'subpattern', 'pattern', 'plug'):
            if hasattr(q, f):
                walk(getattr(q, f))
        if n == 'Instantiate':
            for v in q.inst.values():
                walk(v)

    walk(p)
    return '+'.join(sorted(k for k in s if k in ('Instantiate', 'ESubst', 'SSubst', 'MetaVar')) or ['plain'])


def h_subst(ctx: Any, n: int, m: int, prof: str, kind: str, twin: bool = False) -> None:
    pr = _prof(prof)
    p = gens.gen(ctx, n, pr)
    plug = gens.gen_upto(ctx, m, _prof('plug'))
    x = ctx.int('x')
    if kind == 'e':
        r = p.apply_esubst(x, plug)
        want = O.subst_e(O.expand(p), x, O.expand(plug))
    else:
        r = p.apply_ssubst(x, plug)
        want = O.subst_s(O.expand(p), x, O.expand(plug))
    ctx.count('reached')
    ctx.sample({'pattern': repr(p), 'var': repr(x), 'plug': repr(plug)})
    if twin:
        ctx.violation('TWIN')
    ctx.check(O.eq(O.expand(r), want), f'C11.apply_{kind}subst[{type(p).__name__}|{_kinds(p)}]', lambda: f'{p!r} [{plug!r}/{x}] -> {r!r}')


def _delta(ctx: Any, K: int, m: int, pr: Prof) -> dict:
    orders: list[tuple] = [()]
    for r in range(1, K + 1):
        from itertools import combinations

        for c in combinations(range(K), r):
            orders.extend(permutations(c))
    keys = orders[ctx.choose(len(orders), 'keys')]
    return {k: gens.gen_upto(ctx, m, _prof('val')) for k in keys}


def h_inst(ctx: Any, n: int, m: int, prof: str, twin: bool = False) -> None:
    pr = _prof(prof)
    p = gens.gen(ctx, n, pr)
    delta = _delta(ctx, pr.metavars, m, pr)
    r = p.instantiate(delta)
    want = O.inst(O.expand(p), {k: O.expand(v) for k, v in delta.items()})
    ctx.count('reached')
    ctx.sample({'pattern': repr(p), 'delta': repr(delta)})
    if twin:
        ctx.violation('TWIN')
    ctx.check(O.eq(O.expand(r), want), f'C11.instantiate[{type(p).__name__}|{_kinds(p)}]', lambda: f'{p!r} . {delta!r} -> {r!r}')


def h_compose(ctx: Any, n: int, m: int, prof: str, twin: bool = False) -> None:
    pr = _prof(prof)
    p = gens.gen(ctx, n, pr)
    d1 = _delta(ctx, pr.metavars, m, pr)
    d2 = _delta(ctx, pr.metavars, m, pr)
    ctx.assume(len(d1) > 0 and len(d2) > 0)
    two = p.instantiate(d1).instantiate(d2)
    comp = {k: v.instantiate(d2) for k, v in d1.items()}
    for k, v in d2.items():
        if k not in comp:
            comp[k] = v
    one = p.instantiate(comp)
    ctx.count('reached')
    ctx.sample({'pattern': repr(p), 'd1': repr(d1), 'd2': repr(d2)})
    if twin:
        ctx.violation('TWIN')
    ctx.check(O.eq(O.expand(two), O.expand(one)), f'C11.compose[{_kinds(p)}]', lambda: f'{p!r} . {d1!r} . {d2!r}: {two!r} vs {one!r}')


def h_history(ctx: Any, n: int, m: int, prof: str, twin: bool = False) -> None:
    """a result must not depend on what was computed earlier in the process: before the call under test the same
    operation runs on the sibling patterns (gens.kind_swap: same ids, other constructors; gens.id_shift) and its
    results are thrown away"""
    pr = _prof(prof)
    p = gens.gen(ctx, n, pr)
    op = ('e', 's', 'inst')[ctx.choose(3, 'operation')]
    if op == 'inst':
        delta = _delta(ctx, pr.metavars, m, pr)
        args: tuple = (delta,)
        want = O.inst(O.expand(p), {k: O.expand(v) for k, v in delta.items()})
        f = lambda q, a: q.instantiate(*a)
        warm_args = [({k: gens.kind_swap(v) for k, v in delta.items()},), (delta,)]
    else:
        plug = gens.gen_upto(ctx, m, _prof('plug'))
        x = ctx.int('x')
        args = (x, plug)
        want = (O.subst_e if op == 'e' else O.subst_s)(O.expand(p), x, O.expand(plug))
        f = (lambda q, a: q.apply_esubst(*a)) if op == 'e' else (lambda q, a: q.apply_ssubst(*a))
        warm_args = [(x, gens.kind_swap(plug)), (x, plug)]
    for q in gens.siblings(p, ctx):
        for a in warm_args:
            try:
                f(q, a)
            except Exception:
                ctx.count('warmup_raised')
    r = f(p, args)
    ctx.count('reached')
    ctx.sample({'pattern': repr(p), 'operation': op, 'args': repr(args)})
    if twin:
        ctx.violation('TWIN')
    ctx.check(O.eq(O.expand(r), want), f'C11.after-history.{op}[{type(p).__name__}|{_kinds(p)}]', lambda: f'after the same operation on sibling patterns: {p!r} {op} {args!r} -> {r!r}')


def _norm(t: tuple) -> tuple:
    """drop pending substitutions of a variable that is declared fresh (the checker defers unconditionally,
    the generator drops them at once; both denote the same pattern)"""
    k = t[0]
    if k in ('imp', 'app'):
        return (k, _norm(t[1]), _norm(t[2]))
    if k in ('ex', 'mu'):
        return (k, t[1], _norm(t[2]))
    if k == 'es':
        inner = _norm(t[1])
        if O.doc_e_fresh(inner, t[2]):
            return inner
        return ('es', inner, t[2], _norm(t[3]))
    if k == 'ss':
        inner = _norm(t[1])
        if O.doc_s_fresh(inner, t[2]):
            return inner
        return ('ss', inner, t[2], _norm(t[3]))
    return t


def _may_capture(t: tuple, kind: str, x: Any, plug: tuple) -> bool:
    """the substitution passes under a binder that the plug mentions (where the checker is entitled to refuse)"""
    k = t[0]
    if k in ('imp', 'app'):
        return _may_capture(t[1], kind, x, plug) or _may_capture(t[2], kind, x, plug)
    if k == 'ex':
        if kind == 'e' and t[1] == x:
            return False
        if not O.doc_e_fresh(plug, t[1]):
            return True
        return _may_capture(t[2], kind, x, plug)
    if k == 'mu':
        if kind == 's' and t[1] == x:
            return False
        if not O.doc_s_fresh(plug, t[1]):
            return True
        return _may_capture(t[2], kind, x, plug)
    return False


def h_subst_rs(ctx: Any, n: int, m: int, prof: str, kind: str, twin: bool = False) -> None:
    from .. import rsbridge
    from ..rsrt import Panic

    p = gens.gen(ctx, n, _prof(prof))
    plug = gens.gen_upto(ctx, m, _prof('plug'))
    x = ctx.int('x')
    tp, tplug = O.expand(p), O.expand(plug)
    mod = rsbridge.mod()
    f = mod.apply_esubst if kind == 'e' else mod.apply_ssubst
    try:
        r = rsbridge.from_rs(f(rsbridge.to_rs(tp), x, rsbridge.to_rs(tplug)))
    except Panic:
        r = None
    want = O.subst_e(tp, x, tplug) if kind == 'e' else O.subst_s(tp, x, tplug)
    ctx.count('reached')
    ctx.sample({'pattern': O.show(tp), 'var': repr(x), 'plug': O.show(tplug)})
    if twin:
        ctx.violation('TWIN')
    if r is None:
        ctx.count('rejected_for_capture')
        ctx.check(_may_capture(tp, kind, x, tplug), f'C11.rs.apply_{kind}subst.rejects-without-capture[{tp[0]}]', lambda: f'{O.show(tp)} [{O.show(tplug)}/{x}] panics')
        return
    ctx.check(O.eq(_norm(r), _norm(want)), f'C11.rs.apply_{kind}subst[{tp[0]}]', lambda: f'{O.show(tp)} [{O.show(tplug)}/{x}] -> {O.show(r)}, textbook {O.show(want)}')
    # Python and Rust agree
    rp = p.apply_esubst(x, plug) if kind == 'e' else p.apply_ssubst(x, plug)
    ctx.check(O.eq(_norm(O.expand(rp)), _norm(r)), f'C11.rs-vs-py.apply_{kind}subst[{tp[0]}]', lambda: f'{O.show(tp)} [{O.show(tplug)}/{x}]: rust {O.show(r)} python {rp!r}')


def h_inst_rs(ctx: Any, n: int, m: int, prof: str, twin: bool = False) -> None:
    from .. import rsbridge
    from ..rsrt import Panic

    pr = _prof(prof)
    p = gens.gen(ctx, n, pr)
    delta = _delta(ctx, pr.metavars, m, pr)
    tp = O.expand(p)
    td = {k: O.expand(v) for k, v in delta.items()}
    mod = rsbridge.mod()
    ids = list(td.keys())
    try:
        res = mod.instantiate_internal(rsbridge.to_rs(tp), ids, [rsbridge.to_rs(td[k]) for k in ids])
        r = tp if res is None else rsbridge.from_rs(res)
    except Panic:
        r = None
    ctx.count('reached')
    ctx.sample({'pattern': O.show(tp), 'delta': {k: O.show(v) for k, v in td.items()}})
    if twin:
        ctx.violation('TWIN')
    if r is None:
        # constraint violation or capture: the checker is entitled to refuse exactly then
        ok = False
        for node in O.all_metavar_nodes(tp):
            if node[1] in td:
                v = td[node[1]]
                if any(not O.doc_e_fresh(v, i) for i in node[2]) or any(not O.doc_s_fresh(v, i) for i in node[3]):
                    ok = True
        try:
            from .. import refm

            refm.meta_substitute(tp, ids, [td[k] for k in ids])
        except refm.Unspecified:
            ok = True
        ctx.count('rejected')
        ctx.check(ok, f'C11.rs.instantiate.rejects-without-reason[{tp[0]}]', lambda: f'{O.show(tp)} . { {k: O.show(v) for k, v in td.items()} } panics')
        return
    want = O.inst(tp, td)
    ctx.check(O.eq(_norm(r), _norm(want)), f'C11.rs.instantiate[{tp[0]}]', lambda: f'{O.show(tp)} . { {k: O.show(v) for k, v in td.items()} } -> {O.show(r)}, textbook {O.show(want)}')


def h_sem(ctx: Any, n: int, kind: str, impl: str, nmax: int = 2, twin: bool = False) -> None:
    """substitution lemma of the finite-model semantics on concrete patterns:
       [[phi[y/x]]]rho = [[phi]]rho[x := rho(y)]   and   [[phi[psi/X]]]rho = [[phi]]rho[X := [[psi]]rho]
    whenever the substitution is capture-free (Rust: whenever the checker does not refuse)"""
    import z3

    from .. import mlsem, rsbridge, symx
    from ..rsrt import Panic

    pr = _prof('sem')
    p = gens.gen(ctx, n, pr)
    tp = O.expand(p)
    x = ctx.int('x')
    if kind == 'e':
        plug = ('ev', ctx.int('y'))
    else:
        plug = O.expand(gens.gen_upto(ctx, 2, pr))
    # mu must denote a least fixpoint: bodies positive in the bound variable
    from .c01 import _wf

    ctx.assume(_wf(tp) and _wf(plug))
    if impl == 'rs':
        mod = rsbridge.mod()
        f = mod.apply_esubst if kind == 'e' else mod.apply_ssubst
        try:
            r = rsbridge.from_rs(f(rsbridge.to_rs(tp), x, rsbridge.to_rs(plug)))
        except Panic:
            ctx.count('rejected_for_capture')
            if not twin:
                return
            ctx.assume(False)
    else:
        try:
            want = O.subst_e(tp, x, plug, strict=True) if kind == 'e' else O.subst_s(tp, x, plug, strict=True)
        except O.Capture:
            ctx.count('capturing_not_in_scope')
            if not twin:
                return
            ctx.assume(False)
        pp = gens.from_term(plug)
        r = O.expand(p.apply_esubst(x, pp) if kind == 'e' else p.apply_ssubst(x, pp))
    ctx.count('reached')
    ctx.sample({'pattern': O.show(tp), 'var': repr(x), 'plug': O.show(plug), 'result': O.show(r)})
    if twin:
        ctx.violation('TWIN')
    ctx.check(_wf(r), f'C11.{impl}.sem.apply_{kind}subst.ill-formed-result', lambda: f'{O.show(tp)} [{O.show(plug)}/{x}] -> {O.show(r)}')
    solver = ctx.solver if ctx.symbolic else z3.Solver()
    for nn in range(1, nmax + 1):
        M = mlsem.Model(nn, tag=f'_s{nn}')
        lhs = M.eval(r)
        if kind == 'e':
            rhs = M.eval(tp, eenv=[(x, M.e_lookup(plug[1], []))])
        else:
            rhs = M.eval(tp, senv=[(x, M.eval(plug))])
        solver.push()
        try:
            solver.add(z3.Or([a != b for a, b in zip(lhs, rhs)]))
            solver.add(*M.side)
            res = solver.check()
            if ctx.symbolic:
                ctx.stats.queries += 1
            if res == z3.unknown:
                raise symx.Inconclusive('z3 unknown in the substitution lemma')
            if res == z3.sat:
                m = solver.model()
                vals = {name: m.eval(v, model_completion=True).as_long() for name, v, lo, hi in ctx.vars} if ctx.symbolic else None
        finally:
            solver.pop()
        if res == z3.sat:
            ctx.violation(f'C11.{impl}.sem.apply_{kind}subst.substitution-lemma-fails', f'{O.show(tp)} [{O.show(plug)}/{x}] -> {O.show(r)}: differs from the semantic substitution in a model with {nn} element(s)', values=vals)
    ctx.count('lemma_holds')


def levels(tier: str) -> list[dict]:
    M = 'vf.props.c11'
    L: list[dict] = []
    q = tier == 'quick'
    for n in ([1, 2, 3] if q else [1, 2, 3, 4, 5]):
        for kind in 'es':
            L.append(dict(label=f'subst-{kind}/meta/n={n},plug<=2', module=M, fn='h_subst', kwargs=dict(n=n, m=2, prof='meta', kind=kind), budget_s=60 if q else 400, required=n <= 3))
    for n in ([1, 2, 3] if q else [1, 2, 3, 4, 5]):
        for kind in 'es':
            L.append(dict(label=f'subst-{kind}/notation/n={n},plug<=2', module=M, fn='h_subst', kwargs=dict(n=n, m=2, prof='notation', kind=kind), budget_s=60 if q else 400, required=n <= 3))
    for n in ([1, 2, 3] if q else [1, 2, 3, 4]):
        for kind in 'es':
            L.append(dict(label=f'rust/subst-{kind}/meta/n={n},plug<=2', module=M, fn='h_subst_rs', kwargs=dict(n=n, m=2, prof='metars', kind=kind), budget_s=60 if q else 400, required=n <= 3, twin=(n == 2 and kind == 'e')))
    for n in ([1, 2, 3] if q else [1, 2, 3, 4]):
        L.append(dict(label=f'rust/inst/meta/n={n},val<=1', module=M, fn='h_inst_rs', kwargs=dict(n=n, m=1, prof='metars'), budget_s=60 if q else 400, required=n <= 3, twin=(n == 2)))
    for impl in ('rs', 'py'):
        for kind in 'es':
            for n in ([2, 3] if q else [2, 3, 4]):
                L.append(dict(label=f'semantic/{impl}/subst-{kind}/n={n},carrier<={2 if q else 3}', module=M, fn='h_sem', kwargs=dict(n=n, kind=kind, impl=impl, nmax=2 if q else 3), budget_s=60 if q else 600, required=n <= 3, twin=(n == 3 and impl == 'rs' and kind == 'e')))
    for n in ([2, 3, 4] if q else [2, 3, 4, 5]):
        for kind in 'es':
            L.append(dict(label=f'subst-{kind}/binder-notation/n={n},plug<=2', module=M, fn='h_subst', kwargs=dict(n=n, m=2, prof='binder', kind=kind), budget_s=60 if q else 400, required=n <= 3, twin=False))
    for n in ([1, 2, 3] if q else [1, 2, 3, 4]):
        m = 1 if q else 2
        L.append(dict(label=f'inst/meta/n={n},val<={m}', module=M, fn='h_inst', kwargs=dict(n=n, m=m, prof='meta'), budget_s=60 if q else 600, required=n <= 3))
        L.append(dict(label=f'inst/notation/n={n},val<={m}', module=M, fn='h_inst', kwargs=dict(n=n, m=m, prof='notation'), budget_s=60 if q else 600, required=n <= 3))
    for n in ([3, 4, 5] if q else [3, 4, 5, 6]):
        L.append(dict(label=f'inst/rawinst/n={n},val<=1', module=M, fn='h_inst', kwargs=dict(n=n, m=1, prof='rawinst'), budget_s=60 if q else 600, required=n <= 4))
    for n in ([1, 2, 3] if q else [1, 2, 3, 4]):
        m = 1 if q else 2
        L.append(dict(label=f'compose/meta0/n={n},val<={m}', module=M, fn='h_compose', kwargs=dict(n=n, m=m, prof='meta0'), budget_s=60 if q else 600, required=n <= 2))
    for prof in ('notation', 'binder', 'meta'):
        for n in ([2, 3] if q else [2, 3, 4]):
            L.append(dict(label=f'history/{prof}/n={n},plug<=1', module=M, fn='h_history', kwargs=dict(n=n, m=1, prof=prof), budget_s=60 if q else 600, required=n <= 2, twin=False))
    return L


def run(tier: str) -> dict:
    return common.run_levels(common.tiered(levels, tier))
