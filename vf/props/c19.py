"""C19 Pretty-printed notation shows the arguments it depends on."""
from __future__ import annotations

import string
import time
from typing import Any

import z3

from .. import callseq, gens, oracle as O, patches, refm, symx
from . import common

ID = 'C19'
FUNCTIONS = [
    'pattern.py: Notation.format_str of every live notation (encoded in the z3 theory of strings), Notation.print_instantiation, Instantiate.pretty, PrettyOptions',
    'proofs/definedness.py, proofs/kore.py (incl. sorted_exists, kore_exists, nary_app), proofs/substitution.py (forall): the notation objects, read from the imported modules at run time',
    'pretty_printing_interpreter.py: every printer; serializing_interpreter.py; proof.py: ProofExp.execute_full / serialize paths for both output formats',
]
ASSUMPTIONS = [
    'format strings are parsed with string.Formatter().parse; only plain positional fields {i} are supported (anything else: inconclusive)',
    'argument renderings are arbitrary strings of length <= 8 (z3 sequence theory); two applications differ in exactly one argument the definition depends on',
    'execution of Instantiate.pretty on pairs of applications and the step/instruction correspondence use concrete small ids (rendered text of a symbolic id is a placeholder): these two parts are bounded enumeration replayed on the real code, the string queries are the solver-decided part',
]
OUTSIDE = 'injectivity when several arguments change at once (adjacent placeholders are not uniquely parseable for arbitrary strings); argument renderings longer than 8 characters'
EXPLANATION = (
    'for every live notation and every argument its definition depends on, z3 (theory of strings) is asked for two argument tuples that differ only there and render equally: '
    'unsat = the rendering shows the argument; the pretty and binary outputs of generated programs are compared step by step'
)


def live_notations() -> list:
    from proof_generation import pattern as P
    from proof_generation.proofs import definedness as D
    from proof_generation.proofs import kore as K
    from proof_generation.proofs import substitution as S

    out: list = []
    seen = set()
    for mod in (P, D, K):
        for name, v in sorted(vars(mod).items()):
            if isinstance(v, P.Notation) and id(v) not in seen:
                seen.add(id(v))
                out.append((f'{mod.__name__.split(".")[-1]}.{name}', v))
    for v in (0, 1, 7):
        out.append((f'substitution.forall({v})', S.forall(v)))
        out.append((f'kore.sorted_exists({v})', K.sorted_exists(v)))
        out.append((f'kore.kore_exists({v})', K.kore_exists(v)))
    for n in (0, 1, 2, 3):
        out.append((f'kore.nary_app(f,{n})', K.nary_app(P.Symbol('f'), n)))
        out.append((f'kore.nary_app(c,{n},cell)', K.nary_app(P.Symbol('c'), n, True)))
    # a generated n-ary notation for a symbol whose name carries (escaped) braces, as KORE sort-parametric symbols do
    out.append(('kore.nary_app(inj{{S, T}},2)', K.nary_app(P.Symbol('inj{{S, T}}'), 2)))
    out.append(('kore.nary_app(Lbl{{}},1,cell)', K.nary_app(P.Symbol('Lbl{{}}'), 1, True)))
    return out


def render_term(fmt: str, args: list) -> Any:
    parts = []
    auto = 0
    for lit, field, spec, conv in string.Formatter().parse(fmt):
        if lit:
            parts.append(z3.StringVal(lit))
        if field is not None:
            if spec or conv:
                raise ValueError(f'format spec/conversion not supported: {fmt!r}')
            if field == '':
                idx = auto
                auto += 1
            elif field.isdigit():
                idx = int(field)
            else:
                raise ValueError(f'non-positional field in {fmt!r}')
            if idx >= len(args):
                raise IndexError(f'{fmt!r} refers to argument {idx}')
            parts.append(args[idx])
    if not parts:
        return z3.StringVal('')
    return z3.Concat(*parts) if len(parts) > 1 else parts[0]


def wide_notations() -> list:
    """generated n-ary notations with two-digit argument positions: only in the string obligations, with the arguments
    other than the one asked about fixed to distinct constants (all-symbolic queries over 11-12 strings do not finish)"""
    from proof_generation import pattern as P
    from proof_generation.proofs import kore as K

    return [('kore.nary_app(f,11)', K.nary_app(P.Symbol('f'), 11)), ('kore.nary_app(c,12,cell)', K.nary_app(P.Symbol('c'), 12, True))]


def string_obligations(use_cvc5: bool = False) -> tuple[list, dict]:
    """-> (violations, stats).  One query per (notation, argument the definition depends on)."""
    viol: list = []
    stats = {'notations': 0, 'queries': 0, 'unsat': 0, 'solver_s': 0.0, 'samples': []}
    t0 = time.time()
    wide = wide_notations()
    for label, nt in live_notations() + wide:
        stats['notations'] += 1
        deps = sorted(nt.definition.metavars())
        for j in deps:
            a = [z3.String(f'a{i}') for i in range(nt.arity)]
            b = [z3.String(f'b{i}') for i in range(nt.arity)]
            s = z3.Solver()
            s.set('timeout', 20000)
            try:
                ra, rb = render_term(nt.format_str, a), render_term(nt.format_str, b)
            except IndexError as e:
                viol.append({'sig': f'C19.format.malformed[{nt.label}]', 'path': f'inline: {label}', 'detail': str(e)})
                continue
            for i in range(nt.arity):
                s.add(z3.Length(a[i]) <= 8, z3.Length(b[i]) <= 8)
                if i != j:
                    s.add(a[i] == b[i])
                    if (label, nt) in wide:
                        s.add(a[i] == z3.StringVal(f't{i}'))
            s.add(a[j] != b[j])
            s.add(ra == rb)
            q0 = time.time()
            r = s.check()
            stats['queries'] += 1
            stats['solver_s'] += time.time() - q0
            if r == z3.unknown:
                raise RuntimeError(f'z3 unknown on {label} arg {j}')
            if r == z3.unsat:
                stats['unsat'] += 1
                if len(stats['samples']) < 4:
                    stats['samples'].append({'notation': label, 'format': nt.format_str, 'argument': j, 'query': 'unsat: two tuples differing only here cannot render equally'})
                continue
            # replay on the real code
            m = s.model()
            va = [m.eval(x, model_completion=True).as_string() for x in a]
            vb = [m.eval(x, model_completion=True).as_string() for x in b]
            ok = replay_format(nt, va, vb)
            if not ok:
                raise symx.HarnessError(f'string counterexample for {label} does not reproduce')
            viol.append({'sig': f'C19.format.hides-argument[{nt.label}|{j}]', 'path': f'inline: {label} rendered with {va!r} and with {vb!r}', 'detail': f'format string {nt.format_str!r} renders both as the same text although argument {j} differs and the definition depends on it'})
    stats['wall_s'] = round(time.time() - t0, 2)
    return viol, stats


class _Txt:
    """a stand-in pattern whose rendering is a given string"""

    def __init__(self, s: str):
        self.s = s

    def pretty(self, opts: Any) -> str:
        return self.s


def replay_format(nt: Any, va: list, vb: list) -> bool:
    from frozendict import frozendict
    from proof_generation import pattern as P

    opts = P.PrettyOptions(notations={nt.definition: nt})
    ia = P.Instantiate(nt.definition, frozendict(enumerate(_Txt(x) for x in va)))
    ib = P.Instantiate(nt.definition, frozendict(enumerate(_Txt(x) for x in vb)))
    return nt.print_instantiation(ia, opts) == nt.print_instantiation(ib, opts)


# -- executing the real pretty printer on pairs of applications ----------------------------------


def _atoms() -> list:
    from proof_generation import pattern as P

    return [
        P.EVar(1), P.SVar(1), P.EVar(2), P.Symbol('s'), P.MetaVar(1), P.Implies(P.EVar(1), P.EVar(2)), P.App(P.EVar(1), P.EVar(2)),
        P.Exists(1, P.EVar(2)), P.Mu(1, P.EVar(2)), P.bot(), P.neg(P.SVar(1)), P.neg(P.EVar(1)),
    ]


def h_pairs(ctx: Any, idx: int, twin: bool = False) -> None:
    """two applications of one notation printed with the same options object"""
    from proof_generation import pattern as P
    from proof_generation.proofs.propositional import PROPOSITIONAL_NOTATIONS

    label, nt = live_notations()[idx]
    atoms = _atoms()
    deps = sorted(nt.definition.metavars())
    ctx.assume(len(deps) > 0)
    j = deps[ctx.choose(len(deps), 'dep')]
    # only the argument under test varies (all pairs of atoms); the others are fixed
    base = [atoms[(3 + i) % len(atoms)] for i in range(nt.arity)]
    base[j] = atoms[ctx.choose(len(atoms), 'arg')]
    other = atoms[ctx.choose(len(atoms), 'other')]
    a = list(base)
    b = list(base)
    b[j] = other
    # printer: every live notation registered / none registered (the fallback rendering, which is also str())
    registered = ctx.choose(2, 'printer') == 0
    all_nt = {n.definition: n for _, n in live_notations()} if registered else {}
    opts = P.PrettyOptions(notations=all_nt)
    ra_args = [x.pretty(opts) for x in a]
    rb_args = [x.pretty(opts) for x in b]
    ctx.assume(ra_args[j] != rb_args[j])
    first, second = (a, b) if ctx.choose(2, 'order') == 0 else (b, a)
    opts2 = P.PrettyOptions(notations=all_nt)
    # how the applications come about: built directly, or as an instance of a schematic application in which the
    # argument under test / the first argument was a metavariable (same pattern, possibly another key order inside)
    how = ctx.choose(3 if nt.arity > 1 else 2, 'built')

    def build(args: list) -> Any:
        if how == 0:
            return nt(*args)
        k = j if how == 1 else (0 if j != 0 else nt.arity - 1)
        schem = list(args)
        schem[k] = P.MetaVar(200 + k)
        return nt(*schem).instantiate({200 + k: args[k]})

    r1 = build(first).pretty(opts2)
    r2 = build(second).pretty(opts2)
    ctx.count('reached')
    ctx.sample({'notation': label, 'first': r1, 'second': r2})
    if twin:
        ctx.violation('TWIN')
    tag = ('registered' if registered else 'unregistered') + '|' + ('direct', 'instance-at-the-argument', 'instance-at-another-argument')[how]
    ctx.check(r1 != r2, f'C19.pretty.same-text-for-different-arguments[{nt.label}|{tag}]', lambda: f'{label}: {first!r} and {second!r} both print as {r1!r}')
    for k in deps:
        ctx.check(first[k].pretty(opts) in r1, f'C19.pretty.argument-not-shown[{nt.label}|{k}|{tag}]', lambda: f'{label}{first!r} prints as {r1!r}')
    if how != 0 and nt.arity > 1:
        # an application that came about as an instance against the directly built application with two arguments
        # exchanged: different patterns, differently printed arguments, so different text
        k2 = next(k for k in deps + list(range(nt.arity)) if k != j)
        if k2 in deps and first[j].pretty(opts) != first[k2].pretty(opts):
            sw = list(first)
            sw[j], sw[k2] = sw[k2], sw[j]
            rs = nt(*sw).pretty(opts2)
            ctx.check(r1 != rs, f'C19.pretty.same-text-for-different-arguments[{nt.label}|{tag}|against-the-direct-application-with-arguments-exchanged]', lambda: f'{label}: the instance {first!r} and the direct application {sw!r} both print as {r1!r}')


def h_nest(ctx: Any, idx: int, twin: bool = False) -> None:
    """an application of the notation inside another application of the same notation, on the left or on the right:
    (a . b) . c and a . (b . c) are different patterns with differently printed arguments"""
    from proof_generation import pattern as P

    label, nt = live_notations()[idx]
    deps = sorted(nt.definition.metavars())
    pairs = [(i, j) for i in deps for j in deps if i < j]
    ctx.assume(len(pairs) > 0)
    i, j = pairs[ctx.choose(len(pairs), 'positions')]
    atoms = _atoms()
    a, b, c = (atoms[ctx.choose(len(atoms), 'atom')] for _ in range(3))
    registered = ctx.choose(2, 'printer') == 0
    opts = P.PrettyOptions(notations={n.definition: n for _, n in live_notations()} if registered else {})
    base = [atoms[(3 + k) % len(atoms)] for k in range(nt.arity)]
    in1 = list(base)
    in1[i], in1[j] = a, b
    x = list(base)
    x[i], x[j] = nt(*in1), c
    in2 = list(base)
    in2[i], in2[j] = b, c
    y = list(base)
    y[i], y[j] = a, nt(*in2)
    ctx.assume(x[i].pretty(opts) != y[i].pretty(opts) or x[j].pretty(opts) != y[j].pretty(opts))
    rx, ry = nt(*x).pretty(opts), nt(*y).pretty(opts)
    ctx.count('reached')
    ctx.sample({'notation': label, 'left-nested': rx, 'right-nested': ry})
    if twin:
        ctx.violation('TWIN')
    ctx.check(rx != ry, f'C19.pretty.same-text-for-different-nesting[{nt.label}|{"registered" if registered else "unregistered"}]', lambda: f'{label}: {x!r} and {y!r} both print as {rx!r}')


# -- pretty steps vs binary instructions ----------------------------------------------------------

STEP_NAMES = ('EVar', 'SVar', 'Symbol', 'MetaVar', 'Implies', 'App', 'Exists', 'Mu', 'ESubst', 'SSubst', 'Prop1', 'Prop2', 'Prop3', 'ModusPonens', 'Quantifier', 'Generalization', 'Instantiate', 'Pop', 'Save', 'Load', 'Publish')


def pretty_steps(text: str) -> list[tuple]:
    out = []
    for line in text.split('\n'):
        if not line or line.startswith('\t'):
            continue
        w = line.split(' ')[0]
        if w.startswith('MetaVar'):
            out.append(('MetaVar', line))
            continue
        if w in STEP_NAMES:
            out.append((w, line))
        elif any(line.startswith(p) for p in ('sFresh,', 'pos,', 'neg,', 'appctx,', 'eFresh,')):
            # continuation of the MetaVar step: its constraint lists, one line each
            if out and out[-1][0] == 'MetaVar':
                out[-1] = ('MetaVar', out[-1][1] + '\n' + line)
            else:
                out.append(('?', line))
        else:
            out.append(('?', line))
    return out


def _operands_agree(name: str, line: str, ins: tuple, symnum: dict) -> bool:
    try:
        if name in ('EVar', 'SVar', 'Exists', 'Mu'):
            return int(line.split(' ')[1]) == ins[1]
        if name == 'Symbol':
            return symnum.get(line.split(' ', 1)[1]) == ins[1]
        if name in ('ESubst', 'SSubst'):
            return int(line.split('id=')[1]) == ins[1]
        if name == 'Generalization':
            return int(line.split(' ')[1]) == ins[1]
        if name == 'MetaVar':
            rest = line[len('MetaVar '):]
            num = ''
            for ch in rest:
                if ch.isdigit():
                    num += ch
                else:
                    break
            if int(num) != ins[1]:
                return False
            # the five constraint lists: what the step lists against what the instruction carries
            import re

            want: list = []
            pos = 2
            for _ in range(5):
                if ins[0] == 'CleanMetaVar':
                    want.append([])
                    continue
                ln = ins[pos]
                want.append(list(ins[pos + 1 : pos + 1 + ln]))
                pos += 1 + ln
            got = []
            for nm in ('eFresh', 'sFresh', 'pos', 'neg', 'appctx'):
                mm = re.search(nm + r', len=(\d+) ((?:\S+ )*)', rest)
                if mm is None:
                    got.append([])
                else:
                    items = [int(t[1:]) for t in mm.group(2).split()]
                    if len(items) != int(mm.group(1)):
                        return False
                    got.append(items)
            return got == want
        if name == 'Instantiate':
            ks = [int(x) for x in line[len('Instantiate '):].split(',') if x.strip()]
            return list(reversed(ks)) == list(ins[2:]) and len(ks) == ins[1]
        if name == 'Load':
            return int(line.rsplit('=', 1)[1]) == ins[1]
    except (ValueError, IndexError):
        return False
    return True


def h_steps(ctx: Any, alphabet: str, steps: int, phase: str, twin: bool = False) -> None:
    """the same call sequence through the pretty printer and the serialiser"""
    from proof_generation.claim import Claim
    from proof_generation.interpreter import ExecutionPhase
    from proof_generation.pretty_printing_interpreter import PrettyPrintingInterpreter

    class ConcreteIds:
        """call sequences with small concrete ids (rendered text of a symbolic id would be a placeholder)"""

        symbolic = True

        def __init__(self, c: Any):
            self.c = c

        def int(self, label: str = 'v', lo: int = 0, hi: int = 255) -> int:
            return self.c.choose(2, label)

        def choose(self, n: int, label: str = '') -> int:
            return self.c.choose(n, label)

    cc = ConcreteIds(ctx)
    ser = callseq.new_serializer()
    sinks = (patches.Sink(), patches.Sink(), patches.Sink())
    pp = PrettyPrintingInterpreter(ExecutionPhase.Gamma, sinks[0], [], sinks[1], sinks[2])
    alpha = callseq.ALPHABETS[alphabet]
    if phase == 'proof':
        for it in (ser, pp):
            it.into_claim_phase()
            it.into_proof_phase()
    log: list = []
    for _ in range(steps):
        adm = callseq.admissible(ser, alpha)
        if not adm:
            break
        call = adm[ctx.choose(len(adm), 'call')]
        before = ctx.choices[:] if hasattr(ctx, 'choices') else None
        # the same decisions for both interpreters: record the choices made for the first, replay for the second
        rec: list = []

        class Rec:
            symbolic = True

            def int(self, label: str = 'v', lo: int = 0, hi: int = 255) -> int:
                v = cc.int(label)
                rec.append(v)
                return v

            def choose(self, n: int, label: str = '') -> int:
                v = cc.choose(n, label)
                rec.append(v)
                return v

        class Play:
            symbolic = True

            def __init__(self) -> None:
                self.i = 0

            def int(self, label: str = 'v', lo: int = 0, hi: int = 255) -> int:
                v = rec[self.i]
                self.i += 1
                return v

            choose = lambda self, n, label='': self.int()

        try:
            log.append(callseq.step(Rec(), ser, call))
            callseq.step(Play(), pp, call)
        except Exception:
            ctx.count('interpreter_raised')
            return
    ctx.count('reached')
    idx = {'gamma': 0, 'claim': 1, 'proof': 2}[phase]
    text = ''.join(sinks[idx].data)
    buf = callseq.streams(ser)[idx]
    ctx.sample({'calls': log, 'pretty': text[:300]})
    if twin:
        ctx.violation('TWIN')
    psteps = pretty_steps(text)
    m = refm.Machine()
    starts = refm.boundaries(buf)
    ctx.assume(starts is not None)
    ins = decode_names(buf, starts)
    ctx.check(len(psteps) == len(ins), 'C19.steps.count-differs', lambda: f'calls {log!r}: pretty steps {[p[0] for p in psteps]} binary {[i[0] for i in ins]}')
    for (pn, line), i in zip(psteps, ins):
        bn = 'MetaVar' if i[0] == 'CleanMetaVar' else i[0]
        ctx.check(pn == bn, f'C19.steps.name-differs[{bn}]', lambda: f'calls {log!r}: pretty {line!r} binary {i!r}')
        ctx.check(_operands_agree(pn, line, i, dict(ser._symbol_identifiers)), f'C19.steps.operand-differs[{bn}]', lambda: f'calls {log!r}: pretty {line!r} binary {i!r}')


def decode_names(buf: list, starts: list) -> list[tuple]:
    BY = {v: k for k, v in refm.opcodes().items()}
    out = []
    for a, b in zip(starts, starts[1:] + [len(buf)]):
        out.append((BY[buf[a]], *buf[a + 1 : b]))
    return out


def modules_correspondence() -> list:
    """shipped modules, both optimise settings: pretty steps vs binary instructions (concrete)"""
    import io

    from proof_generation.claim import Claim
    from proof_generation.counting_interpreter import CountingInterpreter
    from proof_generation.interpreter import ExecutionPhase
    from proof_generation.optimizing_interpreters import MemoizingInterpreter
    from proof_generation.pretty_printing_interpreter import PrettyPrintingInterpreter
    from proof_generation.proofs.propositional import Propositional
    from proof_generation.proofs.small_theory import SmallTheory
    from proof_generation.proofs.substitution import Substitution
    from proof_generation.serializing_interpreter import SerializingInterpreter

    viol = []
    for cls in (Propositional, SmallTheory, Substitution):
        for opt in (False, True):
            outs = {}
            for fmt in ('binary', 'pretty'):
                pe = cls()
                claims = [Claim(c) for c in pe._claims]
                if fmt == 'binary':
                    sinks = [io.BytesIO() for _ in range(3)]
                else:
                    sinks = [io.StringIO() for _ in range(3)]
                for s in sinks:
                    s.close = lambda: None  # type: ignore[method-assign]
                if fmt == 'binary':
                    it: Any = SerializingInterpreter(ExecutionPhase.Gamma, sinks[0], claims, sinks[1], sinks[2])
                else:
                    it = PrettyPrintingInterpreter(ExecutionPhase.Gamma, sinks[0], claims, sinks[1], sinks[2], pe.pretty_options())
                if opt:
                    an = CountingInterpreter(ExecutionPhase.Gamma, claims)
                    pe.execute_full(an)
                    pe.execute_full(MemoizingInterpreter(it, an.finalize()))
                else:
                    pe.execute_full(it)
                outs[fmt] = [s.getvalue() for s in sinks]
            for ph, b, t in zip(('gamma', 'claim', 'proof'), outs['binary'], outs['pretty']):
                buf = list(b)
                starts = refm.boundaries(buf)
                ins = decode_names(buf, starts) if starts is not None else None
                ps = pretty_steps(t)
                names_b = ['MetaVar' if i[0] == 'CleanMetaVar' else i[0] for i in ins] if ins is not None else None
                if names_b != [p[0] for p in ps]:
                    viol.append({'sig': f'C19.steps.module-differs[{cls.__name__}|{ph}]', 'path': f'inline: {cls.__name__} optimize={opt} {ph}', 'detail': f'{len(ps)} pretty steps vs {len(ins) if ins is not None else "undecodable"} instructions'})
    return viol


def setup() -> None:
    patches.shadow_bytes(True)


def setup_concrete() -> None:
    pass


def reset() -> None:
    patches.reset_caches()


def levels(tier: str) -> list[dict]:
    M = 'vf.props.c19'
    q = tier == 'quick'
    bud = 100 if q else 1200
    L: list[dict] = []
    n = len(live_notations())
    for i in range(n):
        if not live_notations()[i][1].definition.metavars():
            continue
        L.append(dict(label=f'pairs/{live_notations()[i][0]}', module=M, fn='h_pairs', kwargs=dict(idx=i), budget_s=bud, required=True, twin=(i == 1), small=True))
    for i in range(n):
        nt_ = live_notations()[i][1]
        if nt_.arity >= 2 and len(nt_.definition.metavars()) >= 2:
            L.append(dict(label=f'nesting/{live_notations()[i][0]}', module=M, fn='h_nest', kwargs=dict(idx=i), budget_s=bud, required=True, twin=False, small=True))
    plan = [('patterns', 'gamma', 2), ('proofs', 'proof', 2), ('all', 'gamma', 2), ('patterns', 'claim', 2), ('small', 'proof', 3), ('patterns', 'gamma', 3), ('proofs', 'proof', 3)]
    if not q:
        plan += [ ('all', 'claim', 3), ('small', 'proof', 4), ('patterns', 'gamma', 4), ('proofs', 'proof', 4)]
    for alpha, ph, st in plan:
        L.append(dict(label=f'steps/{alpha}/{ph}/steps={st}', module=M, fn='h_steps', kwargs=dict(alphabet=alpha, steps=st, phase=ph), budget_s=bud, required=True, twin=False))
    return L


def run(tier: str) -> dict:
    try:
        viol, stats = string_obligations()
    except (ValueError, RuntimeError) as e:
        return {'levels': [], 'inconclusive': [f'string encoding: {e}'], 'errors': []}
    lv = common.tiered(levels, tier)
    res = common.run_levels_parallel([l for l in lv if l.get('small')])
    res2 = common.run_levels([l for l in lv if not l.get('small')])
    res['levels'].extend(res2['levels'])
    res['vacuous'].extend(res2['vacuous'])
    res['validated_traces'] += res2['validated_traces']
    patches.shadow_bytes(False)
    viol2 = modules_correspondence()
    res['direct_violations'] = viol + viol2
    res['extra_queries'] = stats['queries']
    res['extra_solver_s'] = stats['solver_s']
    res['extra'] = {'string_obligations': {k: v for k, v in stats.items() if k != 'samples'}}
    res['samples'] = stats['samples']
    return res
