"""runtime support for the Python emitted by rs2py"""
from __future__ import annotations

from typing import Any, Callable, Iterator


class Panic(Exception):
    """a Rust panic = the checker rejects"""

    def __init__(self, site: str, msg: str = ''):
        super().__init__(site, msg)
        self.site = site
        self.msg = msg

    def __str__(self) -> str:
        return f'{self.site} {self.msg}'


class Ref:
    __slots__ = ('v',)

    def __init__(self, v: Any):
        self.v = v


class RsEnum:
    __slots__ = ()
    _fields: tuple = ()
    _name = ''

    def __eq__(self, o: Any) -> bool:  # derive(PartialEq)
        if self is o:
            return True
        if type(self) is not type(o):
            return False
        for f in self._fields:
            if not (getattr(self, f) == getattr(o, f)):
                return False
        return True

    def __ne__(self, o: Any) -> bool:
        return not self.__eq__(o)

    __hash__ = None  # type: ignore[assignment]

    def __repr__(self) -> str:  # mimics derive(Debug)
        n = self._name.split('::')[-1]
        if not self._fields:
            return n
        if self._fields[0][2:].isdigit():
            return f'{n}(' + ', '.join(_dbg(getattr(self, f)) for f in self._fields) + ')'
        return f'{n} {{ ' + ', '.join(f'{f[2:]}: {_dbg(getattr(self, f))}' for f in self._fields) + ' }'


def _dbg(v: Any) -> str:
    if isinstance(v, list):
        return '[' + ', '.join(_dbg(x) for x in v) + ']'
    return repr(v)


class RsCursor:
    __slots__ = ('data', 'pos')

    def __init__(self, data: Any):
        self.data = data
        self.pos = 0

    def next(self) -> Any:
        if self.pos >= len(self.data):
            return None
        v = self.data[self.pos]
        self.pos += 1
        return v


class RsTake:
    __slots__ = ('it', 'n')

    def __init__(self, it: RsCursor, n: Any):
        self.it = it
        self.n = n


def rs_iter(x: Any) -> Any:
    if isinstance(x, (RsCursor, RsTake)):
        return x
    return RsCursor(x)


def rs_next(it: RsCursor) -> Any:
    return it.next()


def rs_expect(v: Any, msg: str = '') -> Any:
    if v is None:
        raise Panic('expect', msg)
    return v


def rs_unwrap(v: Any) -> Any:
    if v is None:
        raise Panic('unwrap')
    return v


def rs_is_none(v: Any) -> bool:
    return v is None


def rs_is_some(v: Any) -> bool:
    return v is not None


def _items(x: Any) -> Iterator:
    if isinstance(x, RsCursor):
        while True:
            v = x.next()
            if v is None:
                return
            yield v
    elif isinstance(x, RsTake):
        k = 0
        while k < x.n:
            v = x.it.next()
            if v is None:
                return
            yield v
            k += 1
    else:
        yield from x


def rs_contains(lst: Any, x: Any) -> bool:
    for y in _items(lst):
        if y == x:
            return True
    return False


def rs_push(lst: list, x: Any) -> None:
    lst.append(x)


def rs_pop(lst: list) -> Any:
    if not lst:
        return None
    return lst.pop()


def rs_last(lst: list) -> Any:
    if not lst:
        return None
    return lst[-1]


def rs_clear(lst: list) -> None:
    del lst[:]


def rs_len(lst: Any) -> int:
    return len(lst)


def rs_is_empty(lst: Any) -> bool:
    return len(lst) == 0


def rs_position(it: Any, f: Callable) -> Any:
    i = 0
    for v in _items(it):
        if f(v):
            return i
        i += 1
    return None


def rs_find(it: Any, f: Callable) -> Any:
    for v in _items(it):
        if f(v):
            return v
    return None


def rs_any(it: Any, f: Callable) -> bool:
    for v in _items(it):
        if f(v):
            return True
    return False


def rs_take(it: Any, n: Any) -> RsTake:
    return RsTake(rs_iter(it), n)


def rs_for_each(it: Any, f: Callable) -> None:
    for v in _items(it):
        f(v)


def rs_range(a: Any, b: Any) -> Iterator:
    k = a
    while k < b:
        yield k
        k = k + 1


def rs_iterate(x: Any) -> Iterator:
    return _items(x)


def rs_index(lst: Any, i: Any) -> Any:
    if i < 0 or i >= len(lst):
        raise Panic('index-out-of-bounds')
    return lst[i]


def rs_collect(it: Any) -> list:
    return list(_items(it))


def rs_to_vec(x: Any) -> list:
    return list(_items(x))


def rs_all(it: Any, f: Callable) -> bool:
    for v in _items(it):
        if not f(v):
            return False
    return True


# -- further Option / Vec / iterator methods (Option<T> is None | T) -------------------------------------------

def rs_unwrap_or_else(v: Any, f: Callable) -> Any:
    return f() if v is None else v


def rs_unwrap_or(v: Any, d: Any) -> Any:
    return d if v is None else v


def rs_map_or(v: Any, d: Any, f: Callable) -> Any:
    return d if v is None else f(v)


def rs_and_then(v: Any, f: Callable) -> Any:
    return None if v is None else f(v)


def rs_or_else(v: Any, f: Callable) -> Any:
    return f() if v is None else v


def rs_ok_or(v: Any, e: Any) -> Any:
    if v is None:
        raise Panic('ok_or', str(e))
    return v


def rs_is_none_or(v: Any, f: Callable) -> bool:
    return v is None or bool(f(v))


def rs_is_some_or(v: Any, f: Callable) -> bool:
    return v is not None and bool(f(v))


def rs_get(lst: Any, i: Any) -> Any:
    i = int(i)
    return lst[i] if 0 <= i < len(lst) else None


def rs_first(lst: Any) -> Any:
    return lst[0] if len(lst) else None


def rs_rev(it: Any) -> list:
    return list(reversed(list(_items(it))))


def rs_enumerate(it: Any) -> list:
    return [(i, v) for i, v in enumerate(_items(it))]


def rs_zip(a: Any, b: Any) -> list:
    return list(zip(_items(a), _items(b)))


def rs_skip(it: Any, n: Any) -> list:
    return list(_items(it))[int(n):]


def rs_count(it: Any) -> int:
    return len(list(_items(it)))


def rs_extend(lst: list, it: Any) -> None:
    lst.extend(_items(it))


def rs_truncate(lst: list, n: Any) -> None:
    del lst[int(n):]


def rs_insert(lst: list, i: Any, v: Any) -> None:
    if int(i) > len(lst):
        raise Panic('insert', 'index out of bounds')
    lst.insert(int(i), v)


def rs_remove(lst: list, i: Any) -> Any:
    if not 0 <= int(i) < len(lst):
        raise Panic('remove', 'index out of bounds')
    return lst.pop(int(i))


def rs_swap(lst: list, i: Any, j: Any) -> None:
    if not (0 <= int(i) < len(lst) and 0 <= int(j) < len(lst)):
        raise Panic('swap', 'index out of bounds')
    lst[int(i)], lst[int(j)] = lst[int(j)], lst[int(i)]


def rs_starts_with(lst: Any, p: Any) -> bool:
    p = list(p)
    return list(lst[: len(p)]) == p


def rs_ends_with(lst: Any, p: Any) -> bool:
    p = list(p)
    return len(p) == 0 or list(lst[-len(p):]) == p


_NOARG = object()


def rs_min(it: Any, other: Any = _NOARG) -> Any:
    if other is not _NOARG:  # Ord::min(a, b)
        return it if it <= other else other
    xs = list(_items(it))
    return min(xs) if xs else None


def rs_max(it: Any, other: Any = _NOARG) -> Any:
    if other is not _NOARG:
        return it if it >= other else other
    xs = list(_items(it))
    return max(xs) if xs else None
