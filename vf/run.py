"""./check driver: runs the bound levels of one property, replays every
counterexample on the unmodified code, applies known_findings.json, writes the
evidence file and maps everything to the exit codes of DESIGN.md 3.1."""
from __future__ import annotations

import importlib
import json
import hashlib
import os
import subprocess
import sys
import time
from typing import Any

ROOT = os.path.dirname(os.path.dirname(os.path.abspath(__file__)))


def _known() -> list[dict]:
    p = os.path.join(ROOT, 'known_findings.json')
    if not os.path.exists(p):
        return []
    return json.load(open(p)).get('known', [])


def replay_file(path: str) -> int:
    """exit 0: the stored counterexample reproduces on the real code; 1: it does not"""
    from . import symx

    rec = json.load(open(path))
    mod = importlib.import_module(rec['module'])
    if hasattr(mod, 'setup_concrete'):
        mod.setup_concrete()
    h = getattr(mod, rec['fn'])
    c = symx.run_concrete(lambda ctx: h(ctx, **rec['kwargs']), rec['choices'], rec['ints'])
    sigs = [v['sig'] for v in c.violations]
    print(json.dumps({'reproduced': rec['sig'] in sigs, 'sigs': sigs, 'detail': [v['detail'] for v in c.violations]}, ensure_ascii=False))
    return 0 if rec['sig'] in sigs else 1


def main(argv: list[str]) -> int:
    if len(argv) >= 3 and argv[1] == '--replay':
        return replay_file(argv[2])
    if len(argv) >= 3 and argv[0] != '--replay' and argv[1] == '--replay':
        return replay_file(argv[2])
    pid = argv[0].upper()
    tier = argv[1] if len(argv) > 1 else os.environ.get('VERIF_TIER', 'quick')
    if tier == '--replay':
        return replay_file(argv[2])
    seed = int(os.environ.get('VERIF_SEED', '0') or 0)
    mod = importlib.import_module(f'vf.props.{pid.lower()}')
    t0 = time.time()
    try:
        res = mod.run(tier)  # -> dict(result)
    except Exception as e:  # a translator met a construct it does not know, rustc failed, ...: never a pass, never an alarm
        import traceback

        kind = type(e).__name__
        if kind in ('Unsupported',) or 'rustc failed' in str(e):
            print(f'INCONCLUSIVE property={pid}: {kind}: {e}')
            res = {'levels': [], 'inconclusive': [f'{kind}: {e}'], 'errors': []}
        else:
            print(f'HARNESS-ERROR property={pid}: {kind}: {e}')
            traceback.print_exc()
            res = {'levels': [], 'errors': [f'harness-error: {kind}: {e}']}
    wall = time.time() - t0
    return finish(pid, tier, seed, mod, res, wall)


def finish(pid: str, tier: str, seed: int, mod: Any, res: dict, wall: float) -> int:
    """res keys: levels: list of dict(label, module, fn, kwargs, stats(Stats), required(bool)),
    extra: dict merged into coverage, inconclusive: list[str], errors: list[str]"""
    known = [k for k in _known() if k['property'] == pid]
    viol_new: list[dict] = []
    known_hit: dict[str, int] = {}
    replayed = 0
    not_reproduced: list[dict] = []
    os.makedirs(os.path.join(ROOT, 'replays', pid), exist_ok=True)
    seen: dict[str, int] = {}
    for lv in res['levels']:
        st = lv['stats']
        for v in st.violations:
            sig = v['sig']
            if 'more' in v:
                continue
            seen[sig] = seen.get(sig, 0) + 1
            if seen[sig] > 2:
                continue
            rec = {
                'property': pid,
                'module': lv['module'],
                'fn': lv['fn'],
                'kwargs': lv['kwargs'],
                'sig': sig,
                'detail': v['detail'],
                'choices': v['choices'],
                'ints': v['ints'],
            }
            h = hashlib.sha1(json.dumps(rec, sort_keys=True, default=str).encode()).hexdigest()[:12]
            path = os.path.join(ROOT, 'replays', pid, f'{h}.json')
            json.dump(rec, open(path, 'w'), indent=1, ensure_ascii=False, default=str)
            # replay on the unmodified code, fresh process, no proxies, no patches
            env = dict(os.environ)
            r = subprocess.run(
                [sys.executable, '-m', 'vf.run', pid, '--replay', path], capture_output=True, text=True, env=env, cwd=ROOT
            )
            replayed += 1
            if r.returncode != 0:
                not_reproduced.append({'sig': sig, 'path': path, 'out': (r.stdout + r.stderr)[-2000:]})
                continue
            k = _match_known(known, sig)
            if k is not None:
                known_hit[k['id']] = known_hit.get(k['id'], 0) + 1
            else:
                viol_new.append({'sig': sig, 'path': path, 'detail': v['detail']})
    # direct (non-symx) violations reported by the property module, already replayed there
    for v in res.get('direct_violations', []):
        k = _match_known(known, v['sig'])
        replayed += 1
        if k is not None:
            known_hit[k['id']] = known_hit.get(k['id'], 0) + 1
        else:
            viol_new.append(v)

    states = sum(lv['stats'].paths for lv in res['levels'])
    transitions = sum(lv['stats'].decisions for lv in res['levels'])
    queries = sum(lv['stats'].queries for lv in res['levels']) + res.get('extra_queries', 0)
    solver_s = sum(lv['stats'].solver_s for lv in res['levels']) + res.get('extra_solver_s', 0.0)
    samples: list[Any] = []
    for lv in res['levels']:
        for s in lv['stats'].samples[:2]:
            samples.append({'level': lv['label'], 'case': s})
    samples.extend(res.get('samples', []))
    if not samples:
        samples = [{'note': 'no sample recorded'}]
    levels_out = []
    incomplete_required: list[str] = []
    errors: list[str] = list(res.get('errors', []))
    for lv in res['levels']:
        st = lv['stats']
        levels_out.append(
            {
                'label': lv['label'],
                'harness': f"{lv['module']}.{lv['fn']}",
                'bounds': lv['kwargs'],
                'complete': st.complete,
                'paths': st.paths,
                'paths_pruned': st.pruned,
                'decisions': st.decisions,
                'solver_queries': st.queries,
                'solver_s': round(st.solver_s, 2),
                'counters': st.counters,
                'wall_s': round(lv.get('wall_s', 0.0), 1),
            }
        )
        # a deep (thorough-only) level that ends inconclusive is simply not claimed; harness errors always count
        errors.extend(e for e in st.errors if not (lv.get('deep') and e.startswith('inconclusive')))
        if not st.complete and lv.get('required', False):
            incomplete_required.append(lv['label'])
    cov = {
        'states': max(states, 0),
        'transitions': max(transitions, 0),
        'traces_validated_against_impl': replayed + res.get('validated_traces', 0),
        'samples': samples[:12],
        'exhaustive': all(l['complete'] for l in levels_out) and not res.get('inconclusive'),
        'functions_encoded': getattr(mod, 'FUNCTIONS', []),
        'levels': levels_out,
        'levels_completed': [l['label'] for l in levels_out if l['complete']],
        'levels_not_completed_not_claimed': [l['label'] for l in levels_out if not l['complete']],
        'solver_queries': queries,
        'solver_s': round(solver_s, 2),
        'outside_bounds': getattr(mod, 'OUTSIDE', ''),
        'known_findings_reobserved': known_hit,
        'explanation': getattr(mod, 'EXPLANATION', ''),
    }
    cov.update(res.get('extra', {}))
    ev = {
        'property_id': pid,
        'tier': tier if tier in ('quick', 'thorough') else 'quick',
        'seed': seed,
        'level': 'model_checking',
        'coverage': cov,
        'assumptions': getattr(mod, 'ASSUMPTIONS', []),
        'wall_s': round(wall, 2),
        'violations': len(viol_new),
    }
    # development runs against a scratch worktree (PI2_REPO) must not overwrite the evidence of runs against /repo
    evdir = 'evidence' if not os.environ.get('PI2_REPO') else 'evidence_dev'
    os.makedirs(os.path.join(ROOT, evdir), exist_ok=True)
    json.dump(ev, open(os.path.join(ROOT, evdir, f'{pid}.json'), 'w'), indent=1, ensure_ascii=False, default=str)

    for k in known:
        if k['id'] in known_hit:
            print(f"KNOWN-FINDING: property={pid} {k['id']}: {k['what']} (re-observed on {known_hit[k['id']]} replayed counterexample(s))")
    for lo in levels_out:
        print(
            f"[{pid}] {lo['label']}: paths={lo['paths']} pruned={lo['paths_pruned']} queries={lo['solver_queries']} "
            f"solver_s={lo['solver_s']} complete={lo['complete']} wall={lo['wall_s']}s {lo['counters'] if lo['counters'] else ''}"
        )
    if viol_new:
        for v in viol_new:
            print(f"VIOLATION property={pid} replay={v['path']}")
            print(f"  signature: {v['sig']}  detail: {str(v.get('detail'))[:300]}")
        return 1
    if not_reproduced:
        for v in not_reproduced:
            print(f"HARNESS-ERROR property={pid}: counterexample did not reproduce: {v['sig']} {v['path']}\n{v['out']}")
        return 3
    if any(e.startswith('harness-error') for e in errors):
        print(f'HARNESS-ERROR property={pid}:', errors[:5])
        return 3
    if res.get('inconclusive') or incomplete_required or any(e.startswith('inconclusive') for e in errors):
        print(f'INCONCLUSIVE property={pid}:', res.get('inconclusive'), incomplete_required, errors[:5])
        return 2
    vac = res.get('vacuous', [])
    if vac:
        print(f'HARNESS-ERROR property={pid}: vacuity guard failed: {vac}')
        return 3
    print(f'OK property={pid} tier={tier} wall={wall:.1f}s')
    return 0


def _match_known(known: list[dict], sig: str) -> dict | None:
    import re

    for k in known:
        for pat in k['signatures']:
            # only '*' is a wildcard; everything else (brackets included) is literal
            rx = '.*'.join(re.escape(part) for part in pat.split('*'))
            if re.fullmatch(rx, sig):
                return k
    return None


if __name__ == '__main__':
    sys.exit(main(sys.argv[1:]))
