"""Parallel driver for symx: split the path tree by decision-trail prefix and
explore the subtrees on all cores."""
from __future__ import annotations

import importlib
import multiprocessing as mp
import os
import time
from typing import Any

from . import symx

_H: Any = None
_KW: dict = {}
_RESET: Any = None
_DEADLINE: float | None = None


def _load(mod: str, fn: str, kwargs: dict) -> None:
    global _H, _KW, _RESET
    m = importlib.import_module(mod)
    _H = getattr(m, fn)
    _KW = kwargs
    _RESET = getattr(m, 'reset', None)
    su = getattr(m, 'setup', None)
    if su is not None:
        su()


def _harness(ctx: Any) -> None:
    _H(ctx, **_KW)


def _init(mod: str, fn: str, kwargs: dict, deadline: float | None) -> None:
    global _DEADLINE
    _load(mod, fn, kwargs)
    _DEADLINE = deadline


def _work(prefixes: list[list[int]]) -> symx.Stats:
    ctx = symx.Ctx()
    ctx.deadline = _DEADLINE
    try:
        st = ctx.run(_harness, prefixes=prefixes, reset=_RESET)
    except symx.HarnessError as e:
        st = ctx.stats
        st.complete = False
        st.errors.append(f'harness-error: {e}')
    return st


def explore(
    mod: str,
    fn: str,
    kwargs: dict | None = None,
    budget_s: float = 60.0,
    nproc: int | None = None,
    split_target: int = 400,
) -> symx.Stats:
    kwargs = kwargs or {}
    nproc = nproc or int(os.environ.get('VERIF_NPROC', '0')) or os.cpu_count() or 4
    deadline = time.time() + budget_s
    _load(mod, fn, kwargs)
    total = symx.Stats()
    # stage 1: split
    prefixes: list[list[int]] = [[]]
    depth = 3
    while True:
        ctx = symx.Ctx()
        ctx.deadline = deadline
        ctx.max_decisions = depth
        try:
            st = ctx.run(_harness, prefixes=prefixes, reset=_RESET)
        except symx.HarnessError as e:
            st = ctx.stats
            st.complete = False
            st.errors.append(f'harness-error: {e}')
        cuts = st.cut_prefixes
        st.cut_prefixes = []
        total.merge(st)
        if not st.complete:
            return total
        prefixes = cuts
        if not cuts or len(cuts) >= split_target or nproc == 1 and False:
            break
        depth += 3
    if not prefixes:
        return total
    # stage 2: subtrees in parallel
    if nproc == 1:
        _init(mod, fn, kwargs, deadline)
        total.merge(_work(prefixes))
        return total
    import random

    rnd = random.Random(int(os.environ.get('VERIF_SEED', '0') or 0))
    rnd.shuffle(prefixes)
    nchunks = max(1, min(len(prefixes), nproc * 12))
    chunks = [prefixes[i::nchunks] for i in range(nchunks)]
    with mp.get_context('fork').Pool(nproc, initializer=_init, initargs=(mod, fn, kwargs, deadline)) as pool:
        for st in pool.imap_unordered(_work, chunks):
            total.merge(st)
    return total
