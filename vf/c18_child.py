"""Child process for C18 history runs: serialises a list of modules in order, in one
process, and prints a hash of the six output streams of each.  Unmodified repo
code, real bytes(), no instrumentation."""
from __future__ import annotations

import hashlib
import io
import json
import sys
from pathlib import Path
from typing import Any


def build(name: str) -> Any:
    from proof_generation import pattern as P
    from proof_generation.proof import ProofExp
    from proof_generation.proofs.propositional import Propositional

    if name == 'small_theory':
        from proof_generation.proofs.small_theory import SmallTheory

        return SmallTheory()
    if name == 'propositional':
        return Propositional()
    if name == 'small-neg':
        # the claim spells a negation out, the proof plugs in the notation: equal modulo notation, built differently
        from proof_generation.pattern import bot, neg, phi0, phi1
        from proof_generation.proofs.propositional import PROPOSITIONAL_NOTATIONS

        nphi = P.Implies(phi0, bot())
        pe = ProofExp(axioms=[], notations=list(PROPOSITIONAL_NOTATIONS), claims=[P.Implies(nphi, P.Implies(phi1, nphi))])
        pe.add_proof_expression(pe.dynamic_inst(pe.prop1(), {0: neg(phi0)}))
        return pe
    if name == 'substitution':
        from proof_generation.proofs.substitution import Substitution

        return Substitution()
    if name.startswith('mm:'):
        return build_mm(name[3:])

    s0, s1, s2 = P.Symbol('s0'), P.Symbol('s1'), P.Symbol('s2')
    from proof_generation.proofs.propositional import neg

    if name == 'rev-symbols':
        # mentions its symbols in another first-use order than the other menu modules (s2 before s0)
        n = P.Implies(s2, s0)
        pe = ProofExp(axioms=[n], claims=[n])
        pe.add_proof_expression(pe.load_axiom(n))
        return pe
    if name == 'three-imports':
        # a parent without axioms of its own that imports three one-axiom modules
        subs = [ProofExp(axioms=[P.Implies(a, b)]) for a, b in ((s0, s1), (s1, s2), (s2, s0))]
        c = P.Implies(s0, s1)
        pe = ProofExp(claims=[c])
        for m in subs:
            pe.import_module(m)
        pe.add_proof_expression(subs[0].load_axiom(c))
        return pe
    if name == 'neg-raw':
        # uses the notation object neg without importing the module that declares it: its notation table is empty,
        # so the same stack items are rendered differently than in 'neg-known'
        n = P.Implies(neg(s0), neg(P.App(s0, s1)))
        pe = ProofExp(axioms=[n], claims=[n])
        pe.add_proof_expression(pe.load_axiom(n))
        return pe

    class M(ProofExp):
        def __init__(self, kind: str) -> None:
            super().__init__()
            self.prop = self.import_module(Propositional())
            q = P.Implies(s0, s1)
            if kind in ('direct', 'schematic'):
                # the same theory (no axioms, claim q -> q), two different proofs
                self._claims = [P.Implies(q, q)]
                if kind == 'direct':
                    self._proof_expressions = [self.prop.imp_refl(q)]
                else:
                    self._proof_expressions = [self.dynamic_inst(self.prop.imp_refl(), {0: q})]
            elif kind == 'chain':
                a, b, c = P.App(s0, s1), P.App(s1, s0), P.App(s0, s0)
                self._axioms = [P.Implies(a, b), P.Implies(b, c)]
                self._claims = [P.Implies(a, c)]
                self._proof_expressions = [self.prop.imp_transitivity(self.load_axiom(self._axioms[0]), self.load_axiom(self._axioms[1]))]
            elif kind == 'neg-known':
                # the same axiom/claim as 'neg-raw' below; this module knows the propositional notations
                n = P.Implies(neg(s0), neg(P.App(s0, s1)))
                self._axioms = [n]
                self._claims = [n]
                self._proof_expressions = [self.load_axiom(n)]
            elif kind == 'chain2':
                a, b, c = P.App(P.App(s0, s1), s2), P.App(P.App(s1, s0), s2), P.App(P.App(s0, s0), s2)
                self._axioms = [P.Implies(a, b), P.Implies(b, c)]
                self._claims = [P.Implies(a, c)]
                self._proof_expressions = [self.prop.imp_transitivity(self.load_axiom(self._axioms[0]), self.load_axiom(self._axioms[1]))]
            else:
                raise ValueError(kind)

    return M(name)


def build_mm(bench: str) -> Any:
    from proof_generation.interpreter import ExecutionPhase
    from proof_generation.metamath.converter.converter import MetamathConverter
    from proof_generation.metamath.converter.representation import AxiomWithAntecedents
    from proof_generation.metamath.parser import load_database
    from proof_generation.metamath.translate import convert_to_implication, exec_proof
    from proof_generation.proof import ProofExp

    if bench in ('two-variables', 'ph2-constant', 'ambiguous-vars'):
        from proof_generation.metamath.parser import parse_database

        db = parse_database({'two-variables': TWO_VARIABLES, 'ph2-constant': PH2_CONSTANT, 'ambiguous-vars': AMBIGUOUS_VARS}[bench])
    else:
        import os

        db = load_database(f"{os.environ.get('PI2_REPO', '/repo')}/generation/mm-benchmarks/{bench}.mm", include_proof=True)
    converter = MetamathConverter(db)
    axioms = []
    for n in converter.exported_axioms:
        ax = converter.get_axiom_by_name(n)
        axioms.append(convert_to_implication(ax.antecedents, ax.pattern) if isinstance(ax, AxiomWithAntecedents) else ax.pattern)
    claims = [converter.get_lemma_by_name(n).pattern for n in converter.lemmas]
    if not converter.lemmas:
        # a theory without a theorem: only the gamma phase has content
        return ProofExp(axioms=axioms, claims=[])
    target = list(converter.lemmas)[-1]

    class Skeleton(ProofExp):
        def __init__(self) -> None:
            super().__init__(axioms=axioms, claims=claims)

        def execute_proofs_phase(self, interpreter: Any) -> None:
            assert interpreter.phase == ExecutionPhase.Proof
            exec_proof(converter, target, self, interpreter)

    return Skeleton()


TWO_VARIABLES = r"""
$c #Pattern $.
$v ph0 ph1 ph2 $.
ph0-is-pattern $f #Pattern ph0 $.
ph1-is-pattern $f #Pattern ph1 $.
ph2-is-pattern $f #Pattern ph2 $.
$c |- $.
$c \imp $.
$c ( ) $.
imp-is-pattern $a #Pattern ( \imp ph0 ph1 ) $.
proof-rule-prop-1 $a |- ( \imp ph0 ( \imp ph1 ph0 ) ) $.
goal $p |- ( \imp ph2 ( \imp ph0 ph2 ) ) $=
  ( proof-rule-prop-1 ) BAC $.
"""


# three variables of the ambiguous sort #Variable in one axiom (each is converted once as element, once as set variable)
AMBIGUOUS_VARS = r"""
$c #Pattern #Variable #ElementVariable #SetVariable #Symbol \imp \app ( ) |- $.
$v ph0 ph1 xX yY zZ $.
ph0-is-pattern $f #Pattern ph0 $.
ph1-is-pattern $f #Pattern ph1 $.
xX-is-var $f #Variable xX $.
yY-is-var $f #Variable yY $.
zZ-is-var $f #Variable zZ $.
imp-is-pattern $a #Pattern ( \imp ph0 ph1 ) $.
app-is-pattern $a #Pattern ( \app ph0 ph1 ) $.
ax-three-vars $a |- ( \imp xX ( \imp ( \app yY zZ ) ph0 ) ) $.
"""

# the same little theory, but ph2 is a constant (a zero-ary pattern) here and a variable in TWO_VARIABLES
PH2_CONSTANT = r"""
$c #Pattern #Symbol $.
$v ph0 ph1 $.
ph0-is-pattern $f #Pattern ph0 $.
ph1-is-pattern $f #Pattern ph1 $.
$c |- $.
$c \imp $.
$c ( ) $.
$c ph2 $.
ph2-is-symbol $a #Symbol ph2 $.
ph2-is-pattern $a #Pattern ph2 $.
imp-is-pattern $a #Pattern ( \imp ph0 ph1 ) $.
proof-rule-prop-1 $a |- ( \imp ph0 ( \imp ph1 ph0 ) ) $.
goal $p |- ( \imp ph2 ( \imp ph0 ph2 ) ) $=
  ( ph2-is-pattern proof-rule-prop-1 ) BAC $.
"""


class _B(io.BytesIO):
    def close(self) -> None:
        pass


class _S(io.StringIO):
    def close(self) -> None:
        pass


def outputs(pe: Any, optimize: bool) -> list:
    """the six streams of ProofExp.serialize (binary and pretty), in memory"""
    from proof_generation.proof import OutputFormat

    res = []
    for fmt in (OutputFormat.Binary, OutputFormat.Pretty):
        sinks: list = []
        orig = pe.get_serializing_interpreter

        def get(output_format: Any, phase: Any, claims: Any, file_path: Any, fmt: Any = fmt) -> Any:
            from proof_generation.pretty_printing_interpreter import PrettyPrintingInterpreter
            from proof_generation.serializing_interpreter import SerializingInterpreter

            if fmt == OutputFormat.Binary:
                sinks.extend([_B(), _B(), _B()])
                return SerializingInterpreter(phase=phase, claims=claims, out=sinks[0], claim_out=sinks[1], proof_out=sinks[2])
            sinks.extend([_S(), _S(), _S()])
            return PrettyPrintingInterpreter(phase=phase, claims=claims, out=sinks[0], claim_out=sinks[1], proof_out=sinks[2], pretty_options=pe.pretty_options())

        pe.get_serializing_interpreter = get
        try:
            pe.serialize(Path('unused'), fmt, optimize)
        finally:
            del pe.get_serializing_interpreter
        for s in sinks:
            v = s.getvalue()
            res.append(v if isinstance(v, bytes) else v.encode())
    return res


def main() -> None:
    sc = json.loads(sys.argv[1])
    out = []
    built: dict = {}
    for item in sc['sequence']:
        name, opt = item[0], item[1]
        # a third element 'same' serialises the module object built earlier in this sequence once more
        pe = built[name] if len(item) > 2 and item[2] == 'same' and name in built else build(name)
        built[name] = pe
        streams = outputs(pe, opt)
        out.append({'module': name, 'optimize': opt, 'sha': [hashlib.sha256(s).hexdigest()[:16] for s in streams], 'len': [len(s) for s in streams]})
    print(json.dumps(out))


if __name__ == '__main__':
    main()
