#!/bin/bash
# Idempotent, offline bootstrap of the overlay venv used by every check.
set -e
cd "$(dirname "$0")"
V=.venv
if [ ! -x $V/bin/python ] || ! $V/bin/python -c "import z3, frozendict, lark" 2>/dev/null; then
  rm -rf $V
  /venv/bin/python -m venv $V
  SP=$($V/bin/python -c "import sysconfig; print(sysconfig.get_paths()['purelib'])")
  echo "import site; site.addsitedir('/venv/lib/python3.12/site-packages')" > $SP/_overlay.pth
  PIP_NO_INDEX=1 $V/bin/pip install -q --no-index --find-links /opt/veriftools/wheels z3-solver >/dev/null
fi
$V/bin/python -c "import z3, frozendict, lark; print('venv ok, z3', z3.get_version_string())"
